"""C01, C05, C06, C08: the writer family.

Model: spec/Writer.tla (implementation layer) checked exhaustively against the
property layer (spec/MCAPFormat.tla); binding: TLC-generated behaviours are
replayed into the real writer, and traces of the real writer on random / flag
matrix workloads are validated by spec/TraceWriter.tla.
"""
import json
import os

from vlib import MachineryError, read_ndjson, split_runs, shape_hash

RULES = {
    "C01": "non-trivial = closed run with >=1 message whose file is then lexed (2 option sets) and scanned; distinct = distinct abstract traces (alpha image: config, calls, decoded file, reads)",
    "C05": "non-trivial = closed run whose file has >=1 chunk or attachment or metadata record (so at least one pointer exists beyond the footer); distinct = distinct abstract traces",
    "C06": "non-trivial = closed run (every file has data, summary CRC fields; chunk/attachment CRCs when present); distinct = distinct abstract traces",
    "C08": "non-trivial = closed run with statistics enabled and >=1 message; distinct = distinct abstract traces",
}


def nontrivial(prop, run):
    cfg = run[0]["cfg"]
    calls = [e for e in run if e.get("ev") == "Call"]
    closed = any(e["op"] == "close" and e["ret"] == "ok" for e in calls)
    nmsg = sum(1 for e in calls if e["op"] == "message")
    if not closed:
        return False
    if prop == "C01":
        return nmsg >= 1
    if prop == "C05":
        f = [e for e in run if e.get("ev") == "File"]
        return bool(f) and any(r["k"] in ("Chunk", "Attachment", "Metadata") for r in f[0]["recs"])
    if prop == "C08":
        return nmsg >= 1 and not cfg["skipStats"]
    return True


def sample_of(run):
    calls = [e for e in run if e.get("ev") == "Call"]
    f = [e for e in run if e.get("ev") == "File"]
    return {
        "id": run[0]["id"], "cfg": run[0]["cfg"],
        "calls": [{k: v for k, v in c.items() if k not in ("st", "md", "ev")} for c in calls[:8]],
        "file_records": [(r["k"], r["pos"], r["len"]) for r in (f[0]["recs"] if f else [])][:40],
    }


def drive_and_validate(ctx, prop, name, args):
    trace = os.path.join(ctx.tmp, name + ".ndjson")
    wls = os.path.join(ctx.tmp, name + ".wl.ndjson")
    ctx.harness(["wrun", "-out", trace, "-wl", wls] + args)
    rej = ctx.tlc_trace("TraceWriter.tla", "TraceWriter.cfg", trace)
    # implementation layer: Writer.tla stepped over the same calls; disagreement is drift, never a verdict
    drift = ctx.tlc_trace("TraceWriterImpl.tla", "TraceWriterImpl.cfg", trace)
    ctx.extra["impl_layer_drift"] = ctx.extra.get("impl_layer_drift", 0) + len(drift)
    for d in drift[:3]:
        ctx.notes.append("MODEL-DRIFT: Writer.tla disagrees with the code in run %s at trace line %d of %s on %s" % (d["id"], d["line"], name, ",".join(d["what"])))
    events = read_ndjson(trace)
    runs = split_runs(events)
    by_id = {}
    for start, run in runs:
        by_id[run[0]["id"]] = run
        ctx.traces += 1
        ctx.evaluations += 1
        if nontrivial(prop, run):
            ctx.distinct.add(shape_hash(run))
            if len(ctx.samples) < 3:
                ctx.samples.append(sample_of(run))
    bad_ids = set()
    wl_cache = {}

    def replay_for(rid):
        def w():
            if not wl_cache:
                for line in open(wls):
                    o = json.loads(line)
                    wl_cache[o["id"]] = line
            p = os.path.join(ctx.replay_dir(), "%s.json" % rid.replace("/", "_"))
            open(p, "w").write(wl_cache[rid])
            return p
        return w

    for r in rej:
        for why in r["why"]:
            if why.split("/")[0] != prop:
                continue
            bad_ids.add(r["id"])
            ctx.report(why, replay_for(r["id"]), "trace line %d of %s" % (r["line"], name))
    ctx.traces_ok += len(runs) - len(bad_ids)
    return runs


def model(ctx, prop):
    """Exhaustive TLC runs of the writer model against the property layer."""
    if prop == "C01":
        # the unindexed iterator (ScanRead.tla): every token stream of its scope x topic set x window against the property layer
        ctx.tlc_model("ScanReadMC.tla", "ScanRead.cfg", workers=8)
    if ctx.tier == "quick":
        ctx.tlc_model("WriterMC.tla", "Writer_quick.cfg")
        ctx.tlc_model("WriterMC.tla", "Writer_asm_quick.cfg")      # chunks assembled by the caller, AddSchema / AddChannel
    else:
        ctx.tlc_model("WriterMC.tla", "Writer_asm.cfg", timeout=3400)
        ctx.tlc_model("WriterMC.tla", "Writer_thorough.cfg", timeout=3400)
        ctx.tlc_model("WriterMC.tla", "Writer_flags.cfg")


def simulate(ctx, n, seed, cfg="Writer_sim.cfg"):
    """spec -> code: TLC -simulate behaviours of WriterMC, exported as JSON."""
    import re
    out, rc, wall = ctx.tlc("WriterMC.tla", cfg, workers=1, extra=["-simulate", "num=%d" % n, "-depth", "30", "-seed", str(seed)], timeout=900)
    if "Error:" in out and "Invariant" in out:
        raise MachineryError("WriterMC simulation violated a model invariant:\n" + out[-3000:])
    behs = re.findall(r'<<"BEH", "(.*)">>', out)
    if not behs:
        raise MachineryError("simulation exported no behaviours:\n" + out[-2000:])
    p = os.path.join(ctx.tmp, "beh-%s-%d.ndjson" % (cfg, seed))
    seen = set()
    with open(p, "w") as f:
        for b in behs:
            js = json.loads('"' + b + '"')
            if js in seen:
                continue
            seen.add(js)
            f.write(js + "\n")
    ctx.extra["tlc_behaviours_replayed"] = ctx.extra.get("tlc_behaviours_replayed", 0) + len(seen)
    return p


def run(ctx, prop):
    ctx.build()
    model(ctx, prop)
    s = ctx.seed
    if ctx.tier == "quick":
        drive_and_validate(ctx, prop, "replay", ["-mode", "abstract", "-seed", s, "-in", simulate(ctx, 300, s)])
        drive_and_validate(ctx, prop, "random", ["-mode", "random", "-seed", s, "-n", 400, "-size", 12])
        drive_and_validate(ctx, prop, "flags", ["-mode", "flags", "-seed", s, "-n", 1, "-size", 10])
        drive_and_validate(ctx, prop, "bulk", ["-mode", "bulk", "-seed", s, "-n", 8, "-size", 2500])      # zstd, lz4 x 4 levels, chunks of 1 MiB
        drive_and_validate(ctx, prop, "asm", ["-mode", "asm", "-seed", s, "-n", 300, "-size", 10])
        drive_and_validate(ctx, prop, "asmreplay", ["-mode", "abstract", "-seed", s + 7, "-in", simulate(ctx, 100, s + 7, "Writer_sim_asm.cfg")])
    else:
        drive_and_validate(ctx, prop, "bulk", ["-mode", "bulk", "-seed", s, "-n", 27, "-size", 6000])
        # sizes fitted to the judging rate (TraceWriter + TraceWriterImpl: about 16 workloads a second): some 12 000 workloads
        for k in range(2):
            drive_and_validate(ctx, prop, "asm%d" % k, ["-mode", "asm", "-seed", s * 1000 + k, "-n", 1000, "-size", 8 + 12 * k])
        drive_and_validate(ctx, prop, "asmreplay", ["-mode", "abstract", "-seed", s + 7, "-in", simulate(ctx, 800, s + 7, "Writer_sim_asm.cfg")])
        for k in range(2):
            drive_and_validate(ctx, prop, "replay%d" % k, ["-mode", "abstract", "-seed", s * 100 + k, "-in", simulate(ctx, 1500, s * 100 + k)])
        for k in range(4):
            drive_and_validate(ctx, prop, "random%d" % k, ["-mode", "random", "-seed", s * 1000 + k, "-n", 1000, "-size", 14 + 8 * k])
        drive_and_validate(ctx, prop, "flags", ["-mode", "flags", "-seed", s, "-n", 2, "-size", 12])
    if prop == "C08":
        # the Info clause: Info on fresh Readers and inside Reader sessions exported by TLC from ReaderSession.tla
        # (Info after filtered / ordered / unindexed reads on the same Reader), judged by TraceIndexed.JudgeInfo
        import indexfam
        indexfam.drive(ctx, prop, "info", ["-mode", "writer", "-seed", s, "-n", 150 if ctx.tier == "quick" else 1000, "-reads", 2,
                                           "-sessions", indexfam.sessions(ctx), "-nsess", 6])
        indexfam.drive(ctx, prop, "inforand", ["-mode", "rand", "-seed", s, "-n", 20 if ctx.tier == "quick" else 300, "-reads", 2,
                                               "-sessions", indexfam.sessions(ctx), "-nsess", 6])
    ctx.assumptions += [
        "refmcap (independent decoder written from the MCAP specification) and the abstraction alpha (interning by byte equality, order embedding of timestamps) are trusted",
        "CRC-32 arithmetic (hash/crc32) and the zstd/lz4 codecs are trusted; the specification decides ranges, sizes and relations",
    ]
    return ctx.finish("model_checking", RULES[prop])


def replay(ctx, prop, path):
    ctx.build()
    trace = os.path.join(ctx.tmp, "replay.ndjson")
    ctx.harness(["wrun", "-mode", "file", "-in", path, "-out", trace])
    rej = ctx.tlc_trace("TraceWriter.tla", "TraceWriter.cfg", trace)
    ctx.traces = 1
    for r in rej:
        for why in r["why"]:
            if why.split("/")[0] == prop:
                ctx.report(why, path, "replay")
    ctx.evaluations = 1
    ctx.traces_ok = 0 if ctx.violations else 1
    return ctx.finish("model_checking", RULES[prop])
