"""C18: ROS 1 bag and ROS 2 db3 conversion keeps every message, in order.

Property layer: spec/RosConv.tla (BagNames, DbNames) plus the MCAP format
property layer for the produced file (WellFormed, IndexExact, CRC ranges,
statistics against the file's own content).  Implementation model:
spec/RosBagMC.tla (the converter machine with its active-reader switch, schema
table and sequence counter) checked by TLC on every small bag.  Binding:
seeded bags rendered by an independent bag encoder (rosgen) and real SQLite
databases + an ament tree of definition files are converted by the real
converters; TLC judges the output (TraceWriter.tla).  Corrupt bags (bad magic,
truncation at every byte, hostile lengths, mutations) run in isolated workers.
"""
import json
import os

from vlib import MachineryError, read_ndjson

RULE = ("seeded bags: 1-4 connections with ids from {0,1,2,65535,40000}, repeated connection records, shared and distinct type/md5, empty and multi-KiB payloads, "
        "times up to 2^32-1 s, unchunked / none / lz4 chunks with index records; seeded databases: 1-4 topics with arbitrary ids, with/without QoS column, "
        "equal timestamps, topics without rows, non-message types with and without rows; random MCAP writer options; corrupt bags in isolated workers; "
        "non-trivial = conversion input with >= 1 message, or corrupt input; distinct = distinct abstract inputs")


def judge(ctx, trace, specs):
    rej = ctx.tlc_trace("TraceWriter.tla", "TraceWriter.cfg", trace, timeout=3000)
    events = read_ndjson(trace)
    n, cur = 0, None
    for e in events:
        if e["ev"] == "Run":
            cur = e["id"]
        if e["ev"] in ("BagIn", "DbIn"):
            n += 1
            ctx.traces += 1
            ctx.evaluations += 1
            msgs = e["msgs"] if e["ev"] == "DbIn" else [r for r in e["recs"] if r["k"] == "msg"]
            if msgs:
                ctx.distinct.add(json.dumps(e, sort_keys=True))
            if len(ctx.samples) < 3 and n % 97 == 5:
                ctx.samples.append({"id": cur, "input": e})
        if e["ev"] == "BagCase":
            n += 1
            ctx.traces += 1
            ctx.evaluations += 1
            ctx.distinct.add(("case", e["i"]))
    if n == 0:
        raise MachineryError("no conversions were run")
    spec_by_id = {}
    if specs and os.path.exists(specs):
        for line in open(specs):
            spec_by_id[json.loads(line)["id"]] = line
    bad = set()
    for r in rej:
        e = events[r["line"] - 1]
        for why in r["why"]:
            sig = why if why.startswith("C18/") else "C18/OutputFile/" + why
            bad.add((r["id"], r["line"]))

            def writer(rid=r["id"], e=e):
                p = os.path.join(ctx.replay_dir(), "%s.json" % (rid or "case-%d" % e.get("i", 0)))
                if rid in spec_by_id:
                    open(p, "w").write(spec_by_id[rid])
                else:
                    json.dump({"kind": "case", "event": e}, open(p, "w"))
                return p
            ctx.report(sig, writer, "%s %s" % (r["id"], str(e.get("why", e.get("where", "")))[:200]))
    ctx.traces_ok += n - len(bad)


def run(ctx, prop):
    ctx.build()
    ctx.tlc_model("RosBagMC.tla", "RosBag.cfg", workers=12)
    d = os.path.join(ctx.tmp, "ros")
    os.makedirs(d, exist_ok=True)
    trace = os.path.join(ctx.tmp, "ros.ndjson")
    specs = os.path.join(ctx.tmp, "ros.specs.ndjson")
    args = ["brun", "-seed", ctx.seed, "-n", 300 if ctx.tier == "quick" else 6000, "-out", trace, "-dir", d, "-specs", specs]
    if ctx.tier != "quick":
        args.append("-heavy")
    ctx.harness(args, timeout=14000)
    judge(ctx, trace, specs)
    ctx.assumptions += [
        "the bag encoder rosgen (written from the bag 2.0 format) and the SQLite databases built with the cached go-sqlite3 driver are trusted inputs",
        "the expected ROS 2 schema text is assembled by the harness breadth-first with de-duplication, as documented for the converter",
        "nanosecond arithmetic is compared through limbs (seconds split into 16-bit halves, nanoseconds) that fit TLC's integers",
        "bz2-compressed bags are not generated (no bzip2 encoder is available offline)",
    ]
    return ctx.finish("model_checking", RULE)


def replay(ctx, prop, path):
    ctx.build()
    o = json.load(open(path))
    if o.get("kind") == "case":
        raise MachineryError("corrupt-bag cases are replayed by re-running ./check C18 with the same VERIF_SEED")
    d = os.path.join(ctx.tmp, "ros")
    os.makedirs(d, exist_ok=True)
    trace = os.path.join(ctx.tmp, "ros.ndjson")
    ctx.harness(["brun", "-in", path, "-out", trace, "-dir", d])
    judge(ctx, trace, None)
    return ctx.finish("model_checking", RULE)
