"""C11 (unknown records, appended fields) and C12 (layout independence).

Spec: spec/Layout.tla enumerates spec-legal layouts of one logical content
(chunk partitions, per-chunk compression, schema/channel placement, every
permutation and subset of the summary groups, optional parts; insertions of
unknown records and padding) and checks on a model of the reader's summary pass
that the extracted summary does not depend on the group order.  Binding: TLC
exports every layout, the reference encoder builds it for seeded contents, the
real lexer / scan / indexed reads / Info read it, and TLC judges the results
against the content (TraceWriter.tla: layout judge) and against the file's own
description (TraceIndexed.tla).
"""
import json
import os
import re

from vlib import MachineryError, read_ndjson

RULES = {
    "C11": "every subset of 10 insertion positions (top level, inside chunks at start/middle/end, between summary groups, end of summary, after a chunk) x padding {0,3} on every extensible record, unknown opcodes {0x10,0x7f,0x80,0xff} with body lengths {0,1,40}, on seeded contents; plus the padded conformance shape; non-trivial = at least one insertion or padding; distinct = distinct layouts x contents",
    "C12": "every arrangement of every subset of the 6 summary groups that the specification allows (5088 with message index / summary offsets on and off) on one data layout, and every data layout (compositions of the message sequence into <= 3 parts incl. empty chunks and unchunked runs x per-part compression x definitions up front / per chunk / both) x 3 summaries x CRC; non-trivial = layout differs from the canonical one; distinct = distinct layouts x contents",
}
MODES = {"C11": ["unknown"], "C12": ["summary", "data"]}


def layouts(ctx, mode):
    out = ctx.tlc_model("Layout.tla", "Layout_%s.cfg" % mode, workers=8, timeout=1800)
    ls = re.findall(r'<<"LAYOUT", "(.*)">>', out)
    if not ls:
        raise MachineryError("Layout.tla exported no layouts")
    p = os.path.join(ctx.tmp, "layouts-%s.ndjson" % mode)
    with open(p, "w") as f:
        for l in ls:
            f.write(json.loads('"' + l + '"') + "\n")
    return p, len(ls)


def judge(ctx, prop, name, trace, files):
    rej = ctx.tlc_trace("TraceWriter.tla", "TraceWriter.cfg", trace, timeout=3000)
    rej += ctx.tlc_trace("TraceIndexed.tla", "TraceIndexed.cfg", trace, timeout=3000)
    events = read_ndjson(trace)
    variant_of = {}
    cur = None
    nvar = 0
    known_tmax = {"C01/Scan/Messages/LogTimeMaxNotReturned"}
    for i, e in enumerate(events, 1):
        if e["ev"] == "IFile":
            cur = e["variant"]
            nvar += 1
            ctx.traces += 1
            ctx.evaluations += 1
        variant_of[i] = cur
    specs = {}
    for ln in open(files):
        o = json.loads(ln)
        specs[o["variant"]] = o
        lay = o["layout"]
        trivial = (not lay["unknown"] and lay["pad"] == 0) if prop == "C11" else False
        if not trivial:
            ctx.distinct.add((o["cseed"], json.dumps(lay, sort_keys=True)))
        if len(ctx.samples) < 4 and o["variant"] % 997 == 5:
            ctx.samples.append(lay)
    bad = set()
    for r in rej:
        v = variant_of.get(r["line"])
        for why in r["why"]:
            if "LogTimeMaxNotReturned" in why:      # the exclusive default window end: known finding of C01..C04, not a layout matter
                ctx.known_hits["(C01-C04 known finding: log time 2^64-1 with the default window)"] += 1
                continue
            sig = "%s/%s" % (prop, why)
            bad.add(v)

            def writer(v=v):
                p = os.path.join(ctx.replay_dir(), "layout-%s.json" % v)
                json.dump(specs[v], open(p, "w"))
                return p
            ctx.report(sig, writer, "layout variant %s, trace line %d of %s" % (v, r["line"], name))
    ctx.traces_ok += nvar - len(bad)


def run(ctx, prop):
    ctx.build()
    for mode in MODES[prop]:
        lp, n = layouts(ctx, mode)
        if ctx.tier == "quick" and n > 1500:
            # seeded sample of the exported layouts in the quick tier; the thorough tier builds all of them
            import random
            rnd = random.Random(ctx.seed)
            lines = open(lp).read().splitlines()
            rnd.shuffle(lines)
            open(lp, "w").write("\n".join(lines[:1500]) + "\n")
        else:
            ctx.exhaustive = True
        trace = os.path.join(ctx.tmp, mode + ".ndjson")
        files = os.path.join(ctx.tmp, mode + ".files.ndjson")
        ctx.harness(["lrun", "-seed", ctx.seed, "-in", lp, "-out", trace, "-files", files, "-reads", 3 if ctx.tier == "quick" else 6], timeout=7000)
        judge(ctx, prop, mode, trace, files)
        os.remove(trace)
    if prop == "C11":
        import confam
        confam.pad_vectors(ctx)
    ctx.assumptions += [
        "the reference encoder (refmcap.Build) is trusted to emit the described layout with exact indexes and CRCs; it is pinned by the 416 conformance hashes (C17)",
        "contents are seeded; layouts are the complete enumeration of Layout.tla for its constants (thorough) or a seeded sample of it (quick, when more than 1500)",
    ]
    return ctx.finish("model_checking", RULES[prop])


def replay(ctx, prop, path):
    ctx.build()
    o = json.load(open(path))
    lp = os.path.join(ctx.tmp, "layout.ndjson")
    open(lp, "w").write(json.dumps(o["layout"]) + "\n")
    trace = os.path.join(ctx.tmp, "replay.ndjson")
    files = os.path.join(ctx.tmp, "replay.files.ndjson")
    # the content of a run is derived from seed and group offset: rebuild the same content
    ctx.harness(["lrun", "-seed", o["cseed"] // 100000, "-in", lp, "-out", trace, "-files", files, "-cseed", o["cseed"], "-salt", o["variant"]])
    judge(ctx, prop, "replay", trace, files)
    return ctx.finish("model_checking", RULES[prop])
