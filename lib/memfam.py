"""C20, streaming clause: attachments of growing size through writer and lexer, measured in a child process."""
import os

from vlib import MachineryError, read_ndjson


def run_streams(ctx):
    trace = os.path.join(ctx.tmp, "streams.ndjson")
    ctx.harness(["memrun", "-max", 64 if ctx.tier == "quick" else 256, "-out", trace], timeout=1800)
    rej = ctx.tlc_trace("TraceIndexed.tla", "TraceIndexed.cfg", trace)
    ev = [e for e in read_ndjson(trace) if e["ev"] == "Stream"]
    if not ev:
        raise MachineryError("no stream measurements")
    ctx.traces += len(ev)
    ctx.evaluations += len(ev)
    for e in ev:
        ctx.distinct.add(("stream", e["dir"], e["sizeKiB"]))
    ctx.extra["attachment_streams"] = [{k: e[k] for k in ("dir", "sizeKiB", "peakKiB", "totalKiB")} for e in ev]
    bad = 0
    for r in rej:
        for why in r["why"]:
            if why.startswith("C20"):
                bad += 1
                p = os.path.join(ctx.replay_dir(), "streams.json")
                open(p, "w").write('{"id":"streams","stream":true}')
                ctx.report(why, p, "attachment streaming")
    ctx.traces_ok += len(ev) - bad
