"""C17: the Go conformance tools against the 416-vector cross-language matrix (and the padded half for C11).

For every expectation JSON under tests/conformance/data:
  * the reference encoder (a Go port of generate-inputs.ts in refmcap) regenerates the binary; its sha256 and size must
    equal the git-LFS pointer (416 independent pins of the encoder);
  * the regenerated binary is decoded by refmcap and judged by the TLA+ property layer (WellFormed, IndexExact,
    CrcRanges, StatsExact with the generator's feature set as configuration): the specification is validated against an
    artefact it was not written from;
  * the real lexer and scan iterator read it (content judged against the expectation's data records);
  * test-write-conformance, built from the working tree, must reproduce the official bytes for the 208 non-padded
    vectors, and its output is judged by the same TLA+ operators;
  * test-read-conformance, built from the working tree, must print the expected record stream (streamed, all 416) and
    the expected indexed result (the vectors the Go runner supports).
"""
import os
import subprocess

from vlib import MachineryError, read_ndjson, REPO, GOENV

RULE = ("every vector of tests/conformance/data (6 inputs x admitted feature combinations: 416, 208 padded); per vector: pin, spec judgement of the "
        "reference binary, lexer+scan read, read tool streamed (+indexed where supported), write tool (non-padded); non-trivial = every vector; "
        "distinct = vector names")


def build_tools(ctx):
    tools = {}
    env = dict(GOENV)
    env["GOFLAGS"] = ""      # inside /repo/go the go.work file is used
    for name, d in (("wtool", "test-write-conformance"), ("rtool", "test-read-conformance")):
        out = os.path.join(ctx.tmp, name)
        r = subprocess.run(["go", "build", "-o", out, "."], cwd=os.path.join(REPO, "go/conformance", d), env=env, capture_output=True, text=True)
        if r.returncode != 0:
            raise MachineryError("cannot build %s from the working tree:\n%s" % (d, r.stderr[-3000:]))
        tools[name] = out
    return tools


def drive(ctx, prop, which, only=None):
    tools = build_tools(ctx)
    trace = os.path.join(ctx.tmp, "conf-%s.ndjson" % which)
    scratch = os.path.join(ctx.tmp, "confscratch")
    os.makedirs(scratch, exist_ok=True)
    args = ["crun", "-repo", REPO, "-out", trace, "-wtool", tools["wtool"], "-rtool", tools["rtool"], "-tmp", scratch, "-which", which]
    if only:
        args += ["-only", only]
    ctx.harness(args, timeout=3000)
    rej = ctx.tlc_trace("TraceWriter.tla", "TraceWriter.cfg", trace, timeout=3000)
    events = read_ndjson(trace)
    n = 0
    for e in events:
        if e["ev"] == "Run":
            n += 1
            ctx.traces += 1
            ctx.evaluations += 1
            ctx.distinct.add(e["id"])
            if len(ctx.samples) < 3 and n % 131 == 1:
                ctx.samples.append({"vector": e["id"], "features_cfg": e["cfg"]})
    if n == 0:
        raise MachineryError("no conformance vectors found under %s/tests/conformance/data" % REPO)
    ctx.extra["vectors_and_tool_outputs_judged"] = ctx.extra.get("vectors_and_tool_outputs_judged", 0) + n
    bad = set()
    for r in rej:
        for why in r["why"]:
            tag = why.split("/")[0]
            if prop == "C17":
                sig = why if tag == "C17" else "C17/" + ("WriteToolOutput/" if r["id"].endswith("#written") else "ReferenceFile/") + why
            else:   # C11: only what the Go readers report on the padded binaries
                if tag not in ("C01", "C02") and not why.startswith("C17/ReadTool"):
                    continue
                sig = "C11/PadVector/" + why
            bad.add(r["id"])
            vec = r["id"].split("#")[0]

            def writer(vec=vec):
                p = os.path.join(ctx.replay_dir(), "vector-%s.json" % vec)
                open(p, "w").write('{"vector": "%s", "which": "%s"}' % (vec, which))
                return p
            ctx.report(sig, writer, "%s trace line %d" % (r["id"], r["line"]))
    ctx.traces_ok += n - len(bad)
    os.remove(trace)


def pad_vectors(ctx):
    drive(ctx, "C11", "pad")


def run(ctx, prop):
    ctx.build()
    # the property layer the vectors are judged with is the one the writer model is checked against
    ctx.tlc_model("WriterMC.tla", "Writer_flags.cfg")
    drive(ctx, "C17", "all")
    ctx.exhaustive = True
    ctx.assumptions += [
        "the expectation JSONs and LFS pointer files under tests/conformance/data are the reference; binaries are regenerated, not downloaded",
        "the write half is decided on the 208 non-padded vectors: the Go runner declares padded variants unsupported for writing",
    ]
    return ctx.finish("model_checking", RULE)


def replay(ctx, prop, path):
    import json
    ctx.build()
    o = json.load(open(path))
    drive(ctx, prop, o.get("which", "all"), only=o["vector"])
    return ctx.finish("model_checking", RULE)
