"""C17 conformance family (stub until the generator is ported)."""


def pad_vectors(ctx):
    return
