"""C14: a failing sink or attachment source is reported by the call it hits.

Fault enumeration: for each seeded workload x configuration the number W of
Write calls on the destination is measured, then every k < W is failed (error /
short write with error, transient / permanent); every attachment is written
from misbehaving sources.  TLC judges every run with FaultReported
(spec/TraceWriter.tla: JudgeSink, JudgeAttSrc).  The writer model (Writer.tla)
predicts the number of destination writes per call (field nw); the
implementation-layer acceptor compares it with the counting sink after every
call, so the fault positions enumerated are the model's write boundaries.
"""
import json
import os

from vlib import MachineryError, read_ndjson

RULE = ("every index k of a Write call on the destination, x {error, short write+error} x {transient, permanent}, for each seeded workload/config; "
        "every attachment x {short, long, failing} sources; non-trivial = the fault fired; distinct = distinct (workload, k, kind, permanence) observations")


def judge(ctx, trace, wls):
    rej = ctx.tlc_trace("TraceWriter.tla", "TraceWriter.cfg", trace)
    drift = ctx.tlc_trace("TraceWriterImpl.tla", "TraceWriterImpl.cfg", trace)
    ctx.extra["impl_layer_drift"] = ctx.extra.get("impl_layer_drift", 0) + len(drift)
    for d in drift[:3]:
        ctx.notes.append("MODEL-DRIFT: Writer.tla disagrees with the code in run %s at trace line %d on %s" % (d["id"], d["line"], ",".join(d["what"])))
    events = read_ndjson(trace)
    cur = None
    n = 0
    for e in events:
        if e["ev"] == "Run":
            cur = e["id"]
        if e["ev"] in ("Sink", "AttSrc"):
            n += 1
            ctx.traces += 1
            ctx.evaluations += 1
            if e["ev"] == "AttSrc" or e["fired"]:
                ctx.distinct.add((cur, json.dumps(e, sort_keys=True)))
                if len(ctx.samples) < 4 and n % 53 == 1:
                    ctx.samples.append(dict(e, workload=cur))
    if n == 0:
        raise MachineryError("no sink fault cases were produced (vacuous)")
    wl_by_id = {json.loads(l)["id"]: l for l in open(wls)}
    bad = 0
    for r in rej:
        e = events[r["line"] - 1]
        for why in r["why"]:
            if why.split("/")[0] != "C14":
                continue
            bad += 1

            def writer(rid=r["id"], e=e, line=r["line"]):
                p = os.path.join(ctx.replay_dir(), "%s-%d.json" % (rid, line))
                json.dump({"only": ("k=%d" % e["k"]) if "k" in e else "", "workload": json.loads(wl_by_id[rid])}, open(p, "w"))
                return p
            ctx.report(why, writer, "%s %s" % (r["id"], {k: e[k] for k in ("k", "kind", "permanent", "src", "call") if k in e}))
    ctx.traces_ok += n - bad


def run(ctx, prop):
    ctx.build()
    ctx.tlc_model("WriterMC.tla", "Writer_quick.cfg" if ctx.tier == "quick" else "Writer_thorough.cfg", timeout=3400)
    n, size = (16, 8) if ctx.tier == "quick" else (160, 12)
    trace = os.path.join(ctx.tmp, "sink.ndjson")
    wls = os.path.join(ctx.tmp, "sink.wl.ndjson")
    ctx.harness(["frun", "-seed", ctx.seed, "-n", n, "-size", size, "-out", trace, "-wl", wls], timeout=7000)
    judge(ctx, trace, wls)
    ctx.exhaustive = True
    ctx.assumptions += [
        "a short write is always accompanied by an error (io.Writer contract)",
        "the prefix clause is evaluated at the return of the failing call; after a transient fault later bytes follow a gap by construction",
        "exhaustive over write indexes per workload; workloads/configurations are a seeded sample",
    ]
    return ctx.finish("fault_enumeration", RULE)


def replay(ctx, prop, path):
    ctx.build()
    spec = json.load(open(path))
    wlp = os.path.join(ctx.tmp, "replay.wl.ndjson")
    open(wlp, "w").write(json.dumps(spec["workload"]) + "\n")
    trace = os.path.join(ctx.tmp, "replay.ndjson")
    args = ["frun", "-in", wlp, "-out", trace, "-wl", wlp + ".out"]
    if spec.get("only"):
        args += ["-only", spec["only"]]
    ctx.harness(args)
    judge(ctx, trace, wlp + ".out")
    return ctx.finish("fault_enumeration", RULE)
