"""C02, C03, C04, C20 (reads through Reader.Messages / Info).

Model: spec/IndexedRead.tla (iterator queues, load rule, slots) checked
exhaustively by TLC against spec/IndexProps.tla over every small file x order x
topic set x window.  Binding: (a) the same file space (and random large files,
writer-produced files in every configuration, controlled-overlap files) is
built by the reference encoder / the real writer and read by the real reader;
every observation is judged by TLC with spec/TraceIndexed.tla; (b) the model
iterator is replayed on recorded reads and must yield the same sequence and
allocate the same number of slots as the real iterator (IndexedReplay.tla,
drift only).
"""
import json
import os
import re

from vlib import MachineryError, read_ndjson, NCPU

RULES = {
    "C02": "index-based / default reads (file order) and Info + random access to every indexed attachment/metadata record, on files written by the real writer in random configurations (1/3 with the indexed-reading precondition) and on reference-encoder files; non-trivial = file with >= 1 message and >= 1 chunk; distinct = distinct (file, read options) observations",
    "C03": "log-time and reverse-log-time reads (each twice) of every file of the enumerated scope and of random large files; non-trivial = ordered read of a file in which at least two chunk time ranges overlap or run backwards; distinct = distinct (file, read) observations",
    "C04": "reads restricted by topic set and/or window (bounds drawn from all message times, chunk bounds, 0, 2^64-1), through nanosecond and deprecated options in both argument orders, indexed and scan, 3 orders; non-trivial = the selection is a non-empty proper subset of the file's messages; distinct = distinct (file, read) observations",
    "C20": "slot accounting (verif accessor after every NextInto) on files of 10..1000 chunks with overlap depth 1..8, all orders, with/without filters, 3 compressions; attachment streaming through reader and writer measured in an isolated process; non-trivial = ordered read of a file whose overlap depth is >= 2; distinct = distinct (file, read) observations",
}


def overlap_depth(f):
    ch = f["chunks"]
    best = 0
    for c in ch:
        t = c["start"]
        best = max(best, sum(1 for d in ch if d["start"] <= t <= d["end"]))
    return best


def nontrivial(prop, f, e):
    nmsg = len(f["msgs"])
    if prop == "C08":
        return e["ev"] == "Info"
    if prop == "C02":
        return e["ev"] == "Info" or (e["mode"] in ("default", "index") and e["order"] in ("", "file") and nmsg >= 1 and len(f["chunks"]) >= 1)
    if e["ev"] != "Read":
        return False
    if prop == "C03":
        back = any(f["chunks"][i]["start"] > f["chunks"][i + 1]["start"] for i in range(len(f["chunks"]) - 1))
        return e["order"] in ("log", "rlog") and (overlap_depth(f) >= 2 or back)
    if prop == "C04":
        return (e["hasT"] or e["hasS"] or e["hasE"]) and 0 < len(e["ids"]) < nmsg
    if prop == "C20":
        return e["order"] in ("log", "rlog") and overlap_depth(f) >= 2
    return False


def sessions(ctx):
    """Reader sessions (sequences of complete operations on one Reader): ReaderSession.tla is model-checked
    (Info and index-based reads do not depend on the Reader's history; unindexed reads return a suffix) and every
    session of its scope is exported for the driver."""
    if getattr(ctx, "_sessions", None):
        return ctx._sessions
    ctx.tlc_model("ReaderSession.tla", "ReaderSession.cfg", workers=4)
    out, rc, wall = ctx.tlc("ReaderSession.tla", "ReaderSession_export.cfg", workers=1, timeout=600)
    ss = sorted(set(json.loads('"' + x + '"') for x in re.findall(r'<<"SESSION", "(.*)">>', out)))
    if not ss:
        raise MachineryError("ReaderSession.tla exported no sessions:\n" + out[-2000:])
    import random
    random.Random(ctx.seed).shuffle(ss)
    p = os.path.join(ctx.tmp, "sessions.ndjson")
    open(p, "w").write("\n".join(ss) + "\n")
    ctx.extra["tlc_sessions_exported"] = len(ss)
    ctx._sessions = p
    return p


def decisions(ctx):
    """The decision table of Reader.Messages (ReadDecision.tla): model-checked, exported, replayed by `irun -mode decision`."""
    out = ctx.tlc_model("ReadDecision.tla", "ReadDecision.cfg", workers=1)
    rows = sorted(set(json.loads('"' + x + '"') for x in re.findall(r'<<"DECISION", "(.*)">>', out)))
    if not rows:
        raise MachineryError("ReadDecision.tla exported no table")
    p = os.path.join(ctx.tmp, "decisions.ndjson")
    open(p, "w").write("\n".join(rows) + "\n")
    ctx.extra["decision_rows_replayed"] = len(rows)
    return p


def judge(ctx, prop, name, trace, files, replay_workers=0):
    rej = ctx.tlc_trace("TraceIndexed.tla", "TraceIndexed.cfg", trace, timeout=3000)
    events = read_ndjson(trace)
    cur, f, n, ridx = None, None, 0, 0
    pos = {}
    for i, e in enumerate(events, 1):
        if e["ev"] == "Run":
            cur, ridx = e["id"], 0
        elif e["ev"] == "IFile":
            f = e
        elif e["ev"] in ("Read", "Info"):
            if "sess" in e:
                pos[i] = (cur, ("sess", e["sid"]))
                ctx.extra["session_ops"] = ctx.extra.get("session_ops", 0) + 1
            elif e["ev"] == "Read":
                pos[i] = (cur, ridx)
                ridx += 1
            n += 1
            ctx.traces += 1
            ctx.evaluations += 1
            if nontrivial(prop, f, e):
                ctx.distinct.add((cur, json.dumps({k: v for k, v in e.items() if k not in ("why", "capKiB")}, sort_keys=True)))
                if len(ctx.samples) < 4 and n % 211 == 1:
                    ctx.samples.append({"file": cur, "chunks": f["chunks"][:6], "msgs": [(m["chunk"], m["ch"], m["log"]) for m in f["msgs"][:12]],
                                        "read": {k: v for k, v in e.items() if k in ("mode", "order", "topics", "hasS", "s", "hasE", "e", "form", "ids", "end", "maxSlots")}})
    if n == 0:
        raise MachineryError("driver %s produced no reads (vacuous)" % name)
    bad = set()
    specs = None
    for r in rej:
        for why in r["why"]:
            if why.startswith("DRIFT/"):
                ctx.extra["impl_layer_drift"] = ctx.extra.get("impl_layer_drift", 0) + 1
                if len([x for x in ctx.notes if "ReadDecision" in x]) < 3:
                    ctx.notes.append("MODEL-DRIFT: ReadDecision.tla predicts another outcome / iterator than the real reader (%s) for %s at trace line %d of %s" % (why, r["id"], r["line"], name))
                continue
            if why.split("/")[0] != prop:
                continue
            bad.add(r["line"])

            def writer(line=r["line"], rid=r["id"]):
                nonlocal specs
                if specs is None:
                    specs = {}
                    for ln in open(files):
                        o = json.loads(ln)
                        specs[o["id"]] = o
                o = dict(specs[rid])
                if line in pos and isinstance(pos[line][1], tuple):      # an operation of a Reader session: replay that session
                    o["specs"], o["sess"] = [], [o["sess"][pos[line][1][1]]]
                elif line in pos:
                    o["specs"], o["sess"] = [o["specs"][pos[line][1]]], []
                p = os.path.join(ctx.replay_dir(), "%s-%d.json" % (rid, line))
                json.dump(o, open(p, "w"))
                return p
            ctx.report(why, writer, "%s trace line %d of %s" % (r["id"], r["line"], name))
    ctx.traces_ok += n - len(bad)
    if replay_workers:
        try:
            out, rc, wall = ctx.tlc("IndexedReplay.tla", "IndexedReplay.cfg", workers=replay_workers, env={"TRACE": trace}, timeout=1500 if ctx.tier == "quick" else 3400)
        except MachineryError as e:
            # the model replay only ever yields drift notes: running out of its time budget on a busy machine says nothing
            # about the code and must not fail the check
            if "TLC timeout" not in str(e):
                raise
            ctx.notes.append("model replay of %s (IndexedReplay.tla, implementation layer) not completed within its time budget: drift not evaluated for this drive" % name)
            return
        if "Model checking completed" not in out:
            raise MachineryError("model replay failed:\n" + out[-3000:])
        drifts = re.findall(r'<<"DRIFT", (\d+), "(\w+)">>', out)
        m = re.search(r"Finished computing initial states: (\d+) distinct", out)
        ctx.extra["model_replays"] = ctx.extra.get("model_replays", 0) + (int(m.group(1)) if m else 0)
        ctx.extra["impl_layer_drift"] = ctx.extra.get("impl_layer_drift", 0) + len(drifts)
        for line, what in drifts[:3]:
            ctx.notes.append("MODEL-DRIFT: IndexedRead.tla disagrees with the real iterator on %s at trace line %s of %s" % (what, line, name))


def drive(ctx, prop, name, args, replay_workers=0):
    trace = os.path.join(ctx.tmp, name + ".ndjson")
    files = os.path.join(ctx.tmp, name + ".files.ndjson")
    ctx.harness(["irun", "-out", trace, "-files", files] + [str(a) for a in args], timeout=7000)
    judge(ctx, prop, name, trace, files, replay_workers)
    os.remove(trace)
    os.remove(files)


def run(ctx, prop):
    ctx.build()
    s = ctx.seed
    quick = ctx.tier == "quick"
    ctx.tlc_model("IndexedRead.tla", "Indexed_quick.cfg" if quick else "Indexed_thorough.cfg", timeout=3400)
    if prop in ("C03", "C20"):
        # chunk arrangements in depth (spanning, nesting, chains, backwards): 3 chunks x 4 times, thorough also 4 chunks x 3 times
        ctx.tlc_model("IndexedRead.tla", "Indexed_span3.cfg", workers=12, timeout=1800)
        if not quick:
            ctx.tlc_model("IndexedRead.tla", "Indexed_span4.cfg", workers=12, timeout=3400)
    if not quick:
        ctx.tlc_model("IndexedRead.tla", "Indexed_wide.cfg", timeout=3400)
    reads = {"C02": 4, "C03": 4, "C04": 24, "C20": 6}[prop]
    if prop == "C02":
        drive(ctx, prop, "decision", ["-mode", "decision", "-in", decisions(ctx)])
        drive(ctx, prop, "writer", ["-mode", "writer", "-seed", s, "-n", 300 if quick else 1000, "-reads", reads, "-sessions", sessions(ctx), "-nsess", 4], replay_workers=8)
        drive(ctx, prop, "exh", ["-mode", "exh", "-seed", s, "-chunks", 2, "-msgs", 2, "-times", 3, "-stride", 8 if quick else 1, "-reads", reads])
    elif prop in ("C03", "C04"):
        if prop == "C03":
            # the decision table (incl. Readers over sources that cannot seek): a time order is served through the index or refused
            drive(ctx, prop, "decision", ["-mode", "decision", "-in", decisions(ctx)])
        drive(ctx, prop, "replay", ["-mode", "rand", "-seed", s + 7, "-n", 12, "-reads", reads], replay_workers=8)
        drive(ctx, prop, "exh", ["-mode", "exh", "-seed", s, "-chunks", 2, "-msgs", 2, "-times", 4, "-stride", 6 if quick else (1 if prop == "C03" else 3), "-reads", reads])
        if prop == "C03":
            # the real iterator on the file space of Indexed_span3.cfg (one channel, 3 chunks, 4 times): every 8th file / all
            drive(ctx, prop, "span3", ["-mode", "exh", "-seed", s, "-chunks", 3, "-msgs", 2, "-times", 4, "-chans", 1, "-stride", 8 if quick else 2, "-reads", 0])
        if not quick:
            # strides fitted to what TLC judges in a quarter of an hour per drive (about 15 000 trace lines a minute; measured:
            # stride 4 / 6000 gave traces of 305 000 and 501 000 lines with 4 reads per file, three times that with 24)
            drive(ctx, prop, "exh3", ["-mode", "exh", "-seed", s, "-chunks", 3, "-msgs", 2, "-times", 3, "-stride", 16 if prop == "C03" else 40, "-reads", reads])
            drive(ctx, prop, "exh33", ["-mode", "exh", "-seed", s, "-chunks", 3, "-msgs", 3, "-times", 4, "-stride", 30000 if prop == "C03" else 120000, "-reads", reads])
        drive(ctx, prop, "rand", ["-mode", "rand", "-seed", s, "-n", 80 if quick else 600, "-reads", reads])
        drive(ctx, prop, "writer", ["-mode", "writer", "-seed", s, "-n", 100 if quick else 500, "-reads", reads, "-sessions", sessions(ctx), "-nsess", 4])
    elif prop == "C20":
        drive(ctx, prop, "overlap", ["-mode", "overlap", "-seed", s, "-n", 20 if quick else 120, "-reads", reads], replay_workers=0)
        drive(ctx, prop, "replay", ["-mode", "overlap", "-seed", s + 3, "-n", 3, "-reads", 2], replay_workers=8)
        import memfam
        memfam.run_streams(ctx)
    ctx.assumptions += [
        "message identity is the unique sequence number the driver assigns; field equality of returned triples is decided by the harness on exact values",
        "the enumerated scope is exhaustive for its constants (see model_runs and the exh driver arguments); larger files are seeded samples",
        "zstd / lz4 codecs are third party",
    ]
    return ctx.finish("model_checking", RULES[prop])


def replay(ctx, prop, path):
    ctx.build()
    trace = os.path.join(ctx.tmp, "replay.ndjson")
    files = os.path.join(ctx.tmp, "replay.files.ndjson")
    ctx.harness(["irun", "-mode", "replay", "-in", path, "-out", trace, "-files", files])
    judge(ctx, prop, "replay", trace, files)
    return ctx.finish("model_checking", RULES[prop])
