"""C09 (truncation), C15 (delivery independence / source faults), C07 (corruption).

Model: spec/Lexer.tla + LexerMC.tla (byte-position-accurate framing machine,
exhaustive over small abstract files x every cut / fault position / damaged
chunk) checked against spec/ReadProps.tla; binding: every cut / fault position /
bit flip of seeded real files is run through the real lexer and iterators and
the observations are judged by TLC with spec/TraceRead.tla.
"""
import json
import os

from vlib import MachineryError, read_ndjson, split_runs

MODES = {"C09": ["cut"], "C15": ["frag", "fault", "callfault"], "C07": ["flip", "overwrite"]}
EVS = {"cut": "Cut", "frag": "Frag", "fault": "Fault", "callfault": "Fault", "flip": "Flip", "overwrite": "Flip"}
KEY = {"cut": "cut", "fault": "at", "frag": "policy", "flip": "pos", "overwrite": "pos"}

RULES = {
    "C09": "every cut position 0..len-1 of each generated file x {lexer validate on/off, scan iterator}; non-trivial = the cut read returned at least one token and fewer than the full read; distinct = distinct (file, path, cut) whose abstract observation differs",
    "C15": "4 fragmentation policies x read paths (lexer, scan, indexed file/log order; stream and seekable), an injected non-EOF error at every byte of each file, and a one-shot / persistent error at every call on a seekable source (Read and Seek) through the scan, index-based and default reads; non-trivial = the fault fired (or the delivery was fragmented); distinct = distinct abstract observations",
    "C07": "every single-bit flip of every stored chunk payload byte and of every attachment field/data byte of each file (CRCs on), lexer with validation, error and invalid-token modes, plus seeded multi-byte overwrites and range swaps; non-trivial = the flip was detected (not benign); distinct = distinct (file, position, bit, mode)",
}

SIZES = {
    ("C09", "quick"): {"cut": (4, 8)}, ("C09", "thorough"): {"cut": (40, 10)},
    ("C15", "quick"): {"frag": (12, 10), "fault": (4, 8), "callfault": (8, 8)}, ("C15", "thorough"): {"frag": (150, 14), "fault": (36, 10), "callfault": (80, 10)},
    ("C07", "quick"): {"flip": (3, 8), "overwrite": (6, 8)}, ("C07", "thorough"): {"flip": (24, 9), "overwrite": (60, 9)},
}


def judge(ctx, prop, mode, trace, wls):
    rej = ctx.tlc_trace("TraceRead.tla", "TraceRead.cfg", trace)
    events = read_ndjson(trace)
    ev = EVS[mode]
    cur = None
    fulls = {}
    n_ev = 0
    for e in events:
        if e["ev"] == "Run":
            cur = e["id"]
            fulls = {}
        elif e["ev"] == "Full":
            fulls[(e["via"], e["validate"])] = e["n"]
        elif e["ev"] == ev:
            n_ev += 1
            ctx.evaluations += 1
            ctx.traces += 1
            if mode == "cut":
                nt = 1 <= e["n"] < fulls.get((e["via"], e["validate"]), 0)
            elif mode in ("fault", "callfault"):
                nt = e["fired"]
            elif mode == "frag":
                nt = True
            else:
                nt = not (e["end"] == "eof" and e["n"] == fulls.get(("lex", True), -1))
            if nt:
                ctx.distinct.add((cur, mode, json.dumps({k: v for k, v in e.items() if k != "why"}, sort_keys=True)))
                if len(ctx.samples) < 4 and n_ev % 97 == 1:
                    ctx.samples.append({"file": cur, **{k: v for k, v in e.items() if k in ("ev", "via", "validate", "cut", "at", "policy", "pos", "bit", "n", "end", "fired", "emitInvalid", "target", "why")}})
    if n_ev == 0:
        raise MachineryError("driver %s produced no %s events (vacuous)" % (mode, ev))
    wl_by_id = {}
    for line in open(wls):
        wl_by_id[json.loads(line)["id"]] = line
    bad = 0
    for r in rej:
        e = events[r["line"] - 1]
        for why in r["why"]:
            if why.split("/")[0] != prop:
                continue
            bad += 1
            only = ""
            if mode == "cut":
                only = "cut=%d" % e["cut"]
            elif mode == "fault":
                only = "at=%d" % e["at"]
            elif mode == "callfault":
                only = "call=%d" % e["call"]
            elif mode in ("flip",):
                only = "flip=%d" % (e["pos"] * 8 + e["bit"])

            def writer(rid=r["id"], only=only, line=r["line"]):
                p = os.path.join(ctx.replay_dir(), "%s-%s-%d.json" % (rid, mode, line))
                # a variant run ("<id>-mixedcrc") is replayed from the base workload under the variant's id
                w = json.loads(wl_by_id.get(rid) or wl_by_id[rid.rsplit("-", 1)[0]])
                w["id"] = rid
                json.dump({"mode": mode, "only": only, "workload": w}, open(p, "w"))
                return p
            ctx.report(why, writer, "%s %s" % (r["id"], only))
    ctx.traces_ok += n_ev - bad


def replay_model(ctx, trace, stride):
    """Implementation-layer binding: Lexer.tla is started on the description of each recorded file with the recorded cut /
    fault position and must emit as many tokens and end the same way as the real lexer (every stride-th deterministic read)."""
    import re
    out, rc, wall = ctx.tlc("LexerReplay.tla", "LexerReplay.cfg", workers=8, env={"TRACE": trace, "LEXSTRIDE": str(stride)}, timeout=2400)
    if "Model checking completed" not in out:
        raise MachineryError("lexer model replay failed:\n" + out[-3000:])
    drifts = re.findall(r'<<"DRIFT", (\d+), (\d+), "(\w+)">>', out)
    m = re.search(r"Finished computing initial states: (\d+) distinct", out)
    ctx.extra["model_replays"] = ctx.extra.get("model_replays", 0) + (int(m.group(1)) if m else 0)
    ctx.extra["impl_layer_drift"] = ctx.extra.get("impl_layer_drift", 0) + len(drifts)
    for line, n, end in drifts[:3]:
        ctx.notes.append("MODEL-DRIFT: Lexer.tla predicts %s tokens ending in %s for the read at trace line %s; the real lexer did otherwise" % (n, end, line))


def model(ctx, prop):
    cfgs = {"C09": ["Lexer_cut"], "C15": ["Lexer_fault"], "C07": ["Lexer_flip"]}[prop]
    for c in cfgs:
        name = "%s_%s.cfg" % (c, ctx.tier)
        if not os.path.exists(os.path.join(os.path.dirname(os.path.abspath(__file__)), "..", "spec", name)):
            name = c + "_quick.cfg"
        ctx.tlc_model("LexerMC.tla", name)


def run(ctx, prop):
    ctx.build()
    model(ctx, prop)
    for mode, (n, size) in SIZES[(prop, ctx.tier)].items():
        trace = os.path.join(ctx.tmp, mode + ".ndjson")
        wls = os.path.join(ctx.tmp, mode + ".wl.ndjson")
        ctx.harness(["rrun", "-mode", mode, "-seed", ctx.seed, "-n", n, "-size", size, "-out", trace, "-wl", wls], timeout=7000)
        judge(ctx, prop, mode, trace, wls)
        if mode in ("cut", "fault"):
            replay_model(ctx, trace, 1)
        os.remove(trace)
    ctx.exhaustive = True
    ctx.assumptions += [
        "token equality between a faulty read and the full read is decided by the harness on exact field values (part of the abstraction alpha)",
        "exhaustive per generated file (every cut / fault position / bit); the files themselves are a seeded sample",
        "zstd / lz4 decoders are third-party: only what go/mcap does with their output is judged",
    ]
    return ctx.finish("fault_enumeration", RULES[prop])


def replay(ctx, prop, path):
    ctx.build()
    spec = json.load(open(path))
    wlp = os.path.join(ctx.tmp, "replay.wl.ndjson")
    open(wlp, "w").write(json.dumps(spec["workload"]) + "\n")
    trace = os.path.join(ctx.tmp, "replay.ndjson")
    args = ["rrun", "-mode", spec["mode"], "-in", wlp, "-out", trace, "-wl", wlp + ".out"]
    if spec.get("only"):
        args += ["-only", spec["only"]]
    ctx.harness(args)
    judge(ctx, prop, spec["mode"], trace, wlp + ".out")
    return ctx.finish("fault_enumeration", RULES[prop])
