"""C19: ROS 1 message definitions parse to the right tree, and always terminate.

Model: spec/Ros1Msg.tla - Resolve (property layer: the tree a definition describes, with exact / package-relative /
Header lookup; error for a missing dependency or a type defined in terms of itself) and the resolver as a machine with an
explicit stack, checked by TLC on all 73 000 graphs of a small scope for termination (liveness under fairness), a stack
bounded by the number of types, and agreement with Resolve.  Binding: seeded random type graphs (depth <= 5, all
primitives, arrays, qualified / relative / Header references, comments, constants, blank lines, varied whitespace) are
rendered to text and parsed by the real parser; TLC recomputes the expected tree from the graph description
(TraceRos.tla).  Cyclic definitions, unbalanced brackets, random bytes and mutated definitions run in isolated workers
with a stack cap and a deadline.
"""
import json
import os

from vlib import MachineryError, read_ndjson

RULE = ("seeded type graphs rendered to text and compared with the parse tree; every 10th graph has a missing dependency; hostile definitions "
        "(self/mutual cycles, 11 bracket shapes, random bytes, mutated valid definitions) in isolated workers; non-trivial = graph with >= 1 nested "
        "type, or hostile case; distinct = distinct rendered texts")


def judge(ctx, trace, defs):
    rej = ctx.tlc_trace("TraceRos.tla", "TraceRos.cfg", trace, timeout=3000)
    events = read_ndjson(trace)
    n = 0
    for e in events:
        if e["ev"] == "Def":
            n += 1
            ctx.traces += 1
            ctx.evaluations += 1
            if e["deps"]:
                ctx.distinct.add(json.dumps([e["top"], e["deps"]], sort_keys=True))
            if len(ctx.samples) < 3 and n % 701 == 3:
                ctx.samples.append({"top": e["top"], "deps": e["deps"], "ret": e["ret"], "tree": e["tree"]})
        elif e["ev"] == "MsgCase":
            n += 1
            ctx.traces += 1
            ctx.evaluations += 1
            ctx.distinct.add(("case", e["i"]))
    if n == 0:
        raise MachineryError("no definitions were parsed")
    bad = 0
    for r in rej:
        e = events[r["line"] - 1]
        for why in r["why"]:
            bad += 1

            def writer(e=e):
                p = os.path.join(ctx.replay_dir(), "%s-%d.json" % (e["ev"], e["i"]))
                if e["ev"] == "Def" and defs:
                    for line in open(defs):
                        o = json.loads(line)
                        if o["i"] == e["i"]:
                            open(p, "w").write(line)
                            break
                else:
                    json.dump({"case": e}, open(p, "w"))
                return p
            ctx.report(why, writer, "%s %s" % (e["ev"], e.get("why", e.get("where", ""))[:200]))
    ctx.traces_ok += n - bad


def run(ctx, prop):
    ctx.build()
    ctx.tlc_model("Ros1Msg.tla", "Ros1Msg.cfg", workers=8)
    d = os.path.join(ctx.tmp, "msg")
    os.makedirs(d, exist_ok=True)
    trace = os.path.join(ctx.tmp, "msg.ndjson")
    defs = os.path.join(ctx.tmp, "msg.defs.ndjson")
    n, nh = (3000, 1800) if ctx.tier == "quick" else (60000, 30000)
    ctx.harness(["mrun", "-seed", ctx.seed, "-n", n, "-hostile", nh, "-out", trace, "-dir", d, "-defs", defs], timeout=7000)
    judge(ctx, trace, defs)
    ctx.assumptions += [
        "the renderer (graph -> text) is trusted; the expected tree is computed by TLC from the same abstract graph description",
        "as coded, a package-qualified type that is not among the dependencies resolves to a record without fields (not an error); the model follows the code here",
    ]
    return ctx.finish("model_checking", RULE)


def replay(ctx, prop, path):
    ctx.build()
    o = json.load(open(path))
    if "text" not in o:
        raise MachineryError("hostile cases are replayed by re-running ./check C19 with the same VERIF_SEED")
    trace = os.path.join(ctx.tmp, "msg.ndjson")
    ctx.harness(["mrun", "-in", path, "-out", trace])
    judge(ctx, trace, None)
    return ctx.finish("model_checking", RULE)
