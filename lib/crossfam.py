"""C16: the Go and Python implementations read each other's files identically.

Both directions are judged by the same TLA+ property layer: the logical content
is the sequence of calls (TraceWriter.tla).  go2py: files written by the real
Go writer (no compression, random configurations, half of them with the
seeking readers' precondition) are read by the repository's Python
NonSeekingReader and SeekingReader (CRC validation on; file, log-time and
reverse order); py2go: files written by the Python Writer across its options
are read by the Go lexer, scan iterator, indexed reads in every order and
Info (TraceWriter.tla layout judge + TraceIndexed.tla).
"""
import json
import os

from vlib import MachineryError, read_ndjson, REPO, VERIF

RULE = ("seeded workloads restricted to valid UTF-8 and no compression; Go writer in random configurations (every second one with chunk indexes + repeated "
        "channels/schemas + attachment/metadata indexes) read by both Python readers; Python writer over chunk size x index types x repeat flags x chunking x "
        "statistics x summary offsets x CRC switches read by every Go read path; non-trivial = file with >= 1 message; distinct = distinct abstract traces")


def drive(ctx, mode, n, size, in_file=None):
    d = os.path.join(ctx.tmp, "xfiles-" + mode)
    os.makedirs(d, exist_ok=True)
    trace = os.path.join(ctx.tmp, mode + ".ndjson")
    wls = os.path.join(ctx.tmp, mode + ".wl.ndjson")
    args = ["xrun", "-mode", mode, "-seed", ctx.seed, "-n", n, "-size", size, "-dir", d, "-repo", REPO, "-py", os.path.join(VERIF, "py"), "-out", trace, "-wl", wls]
    if in_file:
        args += ["-in", in_file]
    ctx.harness(args, timeout=7000)
    rej = ctx.tlc_trace("TraceWriter.tla", "TraceWriter.cfg", trace, timeout=3000)
    if mode == "py2go":
        rej += ctx.tlc_trace("TraceIndexed.tla", "TraceIndexed.cfg", trace, timeout=3000)
    events = read_ndjson(trace)
    import hashlib
    cur, buf, n_runs, npy = None, [], 0, 0
    for e in events:
        if e["ev"] == "Run":
            cur, buf = e["id"], []
        buf.append(e)
        if e["ev"] == "PyRead":
            npy += 1
        if e["ev"] == "End":
            n_runs += 1
            ctx.traces += 1
            ctx.evaluations += 1
            if any(x["ev"] == "Call" and x["op"] == "message" for x in buf):
                ctx.distinct.add(hashlib.sha1(json.dumps(buf, sort_keys=True).encode()).hexdigest())
            if len(ctx.samples) < 3 and n_runs % 37 == 1:
                ctx.samples.append({"id": cur, "direction": mode, "events": [x["ev"] + ":" + str(x.get("via", x.get("op", ""))) for x in buf][:30]})
    if n_runs == 0 or (mode == "go2py" and npy == 0):
        raise MachineryError("no cross-language executions were produced (vacuous)")
    ctx.extra["python_reads"] = ctx.extra.get("python_reads", 0) + npy
    wl_by_id = {json.loads(l)["id"]: l for l in open(wls)}
    bad = set()
    for r in rej:
        for why in r["why"]:
            if "LogTimeMaxNotReturned" in why:
                ctx.known_hits["(C01-C04 known finding: log time 2^64-1 with the default window)"] += 1
                continue
            sig = why if why.startswith("C16/") else "C16/" + ("GoReadsPython/" if mode == "py2go" else "PythonReadsGo/") + why
            bad.add(r["id"])

            def writer(rid=r["id"]):
                p = os.path.join(ctx.replay_dir(), "%s-%s.json" % (mode, rid))
                json.dump({"mode": mode, "workload": json.loads(wl_by_id[rid])}, open(p, "w"))
                return p
            ctx.report(sig, writer, "%s trace line %d" % (r["id"], r["line"]))
    ctx.traces_ok += n_runs - len(bad)


def run(ctx, prop):
    ctx.build()
    ctx.tlc_model("WriterMC.tla", "Writer_quick.cfg" if ctx.tier == "quick" else "Writer_thorough.cfg", timeout=3400)
    n = 300 if ctx.tier == "quick" else 5000
    drive(ctx, "go2py", n, 12)
    drive(ctx, "py2go", n, 14)
    ctx.assumptions += [
        "python3 and the repository's python/mcap package (imported from the working tree) are the Python side; no compression codecs are installed for Python",
        "the Python side has no implementation-layer model: it is a black box against the shared property layer",
    ]
    return ctx.finish("model_checking", RULE)


def replay(ctx, prop, path):
    ctx.build()
    o = json.load(open(path))
    p = os.path.join(ctx.tmp, "replay.wl.ndjson")
    open(p, "w").write(json.dumps(o["workload"]) + "\n")
    drive(ctx, o["mode"], 1, 1, in_file=p)
    return ctx.finish("model_checking", RULE)
