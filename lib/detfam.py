"""C13: writer output is a deterministic function of options and calls.

Spec: spec/Instances.tla - writer instances (Writer.tla operators) interleaved at API-call granularity with the
package-level state modelled as a shared variable nobody writes; TLC checks, over every interleaving, that each instance
ends exactly as a solo run of its own calls, and that serialising a map does not depend on the order in which the map
hands out its entries; the interleavings are exported and replayed against real writer instances (with a reader used
between steps).  Harness observations judged by TLC (TraceWriter.tla: Det, Race events): repeated runs with map arguments
built in different insertion orders (>= 8 keys), GOMAXPROCS in {1,2,4,16}, the replayed interleavings, and 16 goroutines
with independent writers and readers in a -race build (data-race reports with a go/mcap frame are rejections).
"""
import json
import os
import re

from vlib import MachineryError, read_ndjson

RULE = ("seeded workloads x random configurations: 5 runs with shuffled map insertion orders, GOMAXPROCS 1/2/4/16; TLC-generated interleavings of 3 instances "
        "replayed at call granularity; 16 goroutines x 3 rounds of write+lex+indexed read in a -race build; non-trivial = every comparison involves >= 2 runs; "
        "distinct = distinct (workload or schedule, kind)")


def run(ctx, prop):
    ctx.build()
    race = ctx.build(race=True)
    ctx.tlc_model("InstancesMC.tla", "Instances.cfg", workers=8)
    nsched = 80 if ctx.tier == "quick" else 1500
    out, rc, wall = ctx.tlc("InstancesMC.tla", "Instances_export.cfg", workers=1, extra=["-simulate", "num=%d" % nsched, "-depth", "40", "-seed", str(ctx.seed)], timeout=900)
    scheds = [json.loads('"' + s + '"') for s in re.findall(r'<<"SCHED", "(.*)">>', out)]
    if not scheds:
        raise MachineryError("Instances.tla exported no interleavings:\n" + out[-2000:])
    sp = os.path.join(ctx.tmp, "scheds.ndjson")
    open(sp, "w").write("\n".join(sorted(set(scheds))) + "\n")
    ctx.extra["tlc_interleavings_replayed"] = len(set(scheds))
    trace = os.path.join(ctx.tmp, "det.ndjson")
    ctx.harness(["drun", "-seed", ctx.seed, "-n", 60 if ctx.tier == "quick" else 1500, "-scheds", sp, "-racebin", race, "-out", trace], timeout=7000)
    rej = ctx.tlc_trace("TraceWriter.tla", "TraceWriter.cfg", trace)
    events = read_ndjson(trace)
    n = 0
    for e in events:
        if e["ev"] in ("Det", "Race"):
            n += 1
            ctx.traces += 1
            ctx.evaluations += 1
            ctx.distinct.add((e.get("id", "race"), e.get("kind", "race")))
            if len(ctx.samples) < 4 and n % 41 == 1:
                ctx.samples.append(e)
            if e["ev"] == "Race":
                ctx.extra["race_run"] = {k: e[k] for k in ("ran", "races", "mcapRaces", "differing")}
    if n == 0:
        raise MachineryError("no determinism observations")
    bad = 0
    for r in rej:
        e = events[r["line"] - 1]
        for why in r["why"]:
            bad += 1

            def writer(e=e):
                p = os.path.join(ctx.replay_dir(), "%s.json" % e.get("id", "race"))
                json.dump({"event": e, "seed": ctx.seed}, open(p, "w"))
                return p
            ctx.report(why, writer, json.dumps(e)[:200])
    ctx.traces_ok += n - bad
    ctx.assumptions += [
        "the specification enumerates interleavings of API calls, not memory-model interleavings: the -race build and the GOMAXPROCS sweep are observation channels of the harness",
        "the race detector is the Go toolchain's; only reports with a go/mcap frame are attributed to the library",
    ]
    return ctx.finish("exploration", RULE)


def replay(ctx, prop, path):
    o = json.load(open(path))
    os.environ["VERIF_SEED"] = str(o.get("seed", 1))
    ctx.seed = o.get("seed", 1)
    return run(ctx, prop)
