"""Shared machinery for the ./check entry point (stdlib only).

Verdict rules (DESIGN.md 2.3):
  exit 0  property held on everything explored (KNOWN-FINDING lines allowed)
  exit 1  VIOLATION property=<id> replay=<path>   -- real code rejected by the property layer
  exit 2  machinery error (TLC failure, build failure, vacuity, timeout) -- never a violation
"""
import collections
import json
import os
import re
import shutil
import subprocess
import sys
import tempfile
import time

VERIF = os.path.dirname(os.path.dirname(os.path.abspath(__file__)))
REPO = os.environ.get("VERIF_REPO", "/repo")
SPEC = os.path.join(VERIF, "spec")
HARNESS = os.path.join(VERIF, "harness")
GOENV = dict(os.environ, GOFLAGS="-mod=mod", GOPROXY="off", GOSUMDB="off", GOTOOLCHAIN="local")
NCPU = os.cpu_count() or 4


class MachineryError(Exception):
    pass


def seed():
    try:
        return int(os.environ.get("VERIF_SEED", "1"))
    except ValueError:
        return 1


class Ctx:
    """One check run: scratch directory, built harness, counters, verdict lines."""

    def __init__(self, prop, tier):
        self.prop = prop
        self.tier = tier
        self.seed = seed()
        self.t0 = time.time()
        self.tmp = tempfile.mkdtemp(prefix="verif-%s-" % prop)
        self.bin = None
        self.states = 0
        self.transitions = 0
        self.model_runs = []
        self.traces = 0
        self.traces_ok = 0
        self.evaluations = 0
        self.distinct = set()
        self.samples = []
        self.violations = []      # (signature, replay path, detail)
        self.known_hits = collections.Counter()
        self.notes = []
        self.extra = {}
        self.assumptions = []
        self.exhaustive = False

    # ------------------------------------------------------------------ build
    def build(self, race=False):
        """Build the harness against /repo's current working tree with -tags verif."""
        work = os.path.join(self.tmp, "harness-race" if race else "harness")
        shutil.copytree(HARNESS, work)
        gomod = os.path.join(work, "go.mod")
        s = open(gomod).read().replace("/repo/", REPO.rstrip("/") + "/")
        open(gomod, "w").write(s)
        # go.sum from the repository's own modules (offline)
        sums = set()
        for m in ("go/mcap", "go/ros"):
            p = os.path.join(REPO, m, "go.sum")
            if os.path.exists(p):
                sums.update(open(p).read().splitlines())
        open(os.path.join(work, "go.sum"), "w").write("\n".join(sorted(x for x in sums if x)) + "\n")
        out = os.path.join(self.tmp, "mcapverif" + ("-race" if race else ""))
        cmd = ["go", "build", "-tags", "verif", "-o", out]
        if race:
            cmd.insert(2, "-race")
        elif os.environ.get("VERIF_COVER"):
            # tools/coverage.sh: which statements of the repository's Go packages do the drivers of a check reach?
            cmd[2:2] = ["-cover", "-coverpkg=./...,github.com/foxglove/mcap/go/mcap,github.com/foxglove/mcap/go/ros,github.com/foxglove/mcap/go/ros/ros1msg"]
        cmd.append("./cmd/mcapverif")
        env = dict(GOENV)
        env["GOCACHE"] = os.environ.get("GOCACHE", os.path.expanduser("~/.cache/go-build"))
        r = subprocess.run(cmd, cwd=work, env=env, capture_output=True, text=True)
        if r.returncode != 0:
            raise MachineryError("harness build failed (does /repo still compile with -tags verif?):\n" + r.stdout + r.stderr)
        if not race:
            self.bin = out
        return out

    def harness(self, args, timeout=3600, binpath=None, env=None, check=True):
        cmd = [binpath or self.bin] + [str(a) for a in args]
        env = dict(env or GOENV)
        if os.environ.get("VERIF_COVER") and os.environ.get("GOCOVERDIR"):
            env["GOCOVERDIR"] = os.environ["GOCOVERDIR"]
        r = subprocess.run(cmd, capture_output=True, text=True, timeout=timeout, env=env, cwd=self.tmp)
        if check and r.returncode != 0:
            raise MachineryError("harness %s failed rc=%d:\n%s\n%s" % (args[0], r.returncode, r.stdout[-2000:], r.stderr[-4000:]))
        return r

    # -------------------------------------------------------------------- TLC
    def _tlc_dir(self):
        d = tempfile.mkdtemp(prefix="tlc-", dir=self.tmp)
        for f in os.listdir(SPEC):
            if f.endswith(".tla") or f.endswith(".cfg"):
                shutil.copy(os.path.join(SPEC, f), d)
        return d

    def tlc(self, spec, cfg, workers=1, env=None, timeout=1800, extra=(), cfg_text=None):
        d = self._tlc_dir()
        if cfg_text is not None:
            open(os.path.join(d, cfg), "w").write(cfg_text)
        e = dict(os.environ)
        if env:
            e.update(env)
        # TLC leaves an empty tlc-<n> directory in java.io.tmpdir per run: keep it inside the run's own scratch directory
        e["JAVA_TOOL_OPTIONS"] = (e.get("JAVA_TOOL_OPTIONS", "") + " -Djava.io.tmpdir=" + d).strip()
        t0 = time.time()
        for attempt in range(3):
            # no checkpoints: a run of more than half an hour would write one, and TLC cannot checkpoint a behaviour of more
            # than 65535 states (a long trace is one such behaviour)
            cmd = ["tlc", "-workers", str(workers), "-checkpoint", "0", "-metadir", os.path.join(d, "meta%d" % attempt), "-config", cfg] + list(extra) + [spec]
            try:
                r = subprocess.run(cmd, cwd=d, env=e, capture_output=True, text=True, timeout=timeout)
            except subprocess.TimeoutExpired:
                shutil.rmtree(d, ignore_errors=True)
                raise MachineryError("TLC timeout on %s/%s" % (spec, cfg))
            out = r.stdout + r.stderr
            # a JVM that could not start or ran out of memory under load says nothing about the specification: try again
            jvm_trouble = ("Starting..." not in out and "Parse Error" not in out and "Semantic error" not in out) or \
                "OutOfMemoryError" in out or "insufficient memory" in out or "Cannot allocate memory" in out
            if not jvm_trouble:
                break
            time.sleep(5 + 10 * attempt)
        shutil.rmtree(d, ignore_errors=True)
        return out, r.returncode, time.time() - t0

    def apalache(self, spec, init, nxt, invs, expect_error=False, length=0, timeout=900):
        """Symbolic check with Apalache (bounded length; with length 0 the invariants are checked for every initial state,
        i.e. for all values of the variables Init ranges over).  Returns True when the outcome is the expected one; any other
        ending (tool trouble, timeout) is a machinery error.  Like every model-level run this gives no verdict about the code."""
        d = self._tlc_dir()
        t0 = time.time()
        out = ""
        try:
            for attempt in range(2):
                cmd = ["apalache-mc", "check", "--init=" + init, "--next=" + nxt, "--inv=" + ",".join(invs), "--length=%d" % length,
                       "--out-dir=" + os.path.join(d, "apa%d" % attempt), spec]
                try:
                    r = subprocess.run(cmd, cwd=d, capture_output=True, text=True, timeout=timeout)
                except subprocess.TimeoutExpired:
                    raise MachineryError("Apalache timeout on %s %s" % (spec, invs))
                out = r.stdout + r.stderr
                if "The outcome is: NoError" in out or "The outcome is: Error" in out:
                    break
                time.sleep(5)
        finally:
            shutil.rmtree(d, ignore_errors=True)
        ok = ("The outcome is: Error" in out) if expect_error else ("The outcome is: NoError" in out)
        if not ok:
            raise MachineryError("Apalache run %s %s did not end as expected (%s):\n%s" % (spec, invs, "counterexample" if expect_error else "no error", out[-2500:]))
        self.model_runs.append({"spec": spec, "cfg": "apalache " + ",".join(invs) + (" (violated, as required of a witness)" if expect_error else ""),
                                "distinct_states": 0, "states_generated": 0, "wall_s": round(time.time() - t0, 1)})
        return True

    def tlc_model(self, spec, cfg, workers=None, timeout=3000, extra=(), cfg_text=None, label=None):
        """Exhaustive (or simulation) run of a model configuration; an invariant
        violation of the *model* is a machinery error here: the models describe the
        unchanged tree, and verdicts come only from real-code traces."""
        out, rc, wall = self.tlc(spec, cfg, workers=workers or NCPU, timeout=timeout, extra=extra, cfg_text=cfg_text)
        m = re.search(r"(\d+) states generated, (\d+) distinct states found", out)
        if "Model checking completed. No error has been found" not in out or not m:
            raise MachineryError("TLC model run %s/%s did not complete cleanly:\n%s" % (spec, cfg, out[-3000:]))
        gen, dist = int(m.group(1)), int(m.group(2))
        self.states += dist
        self.transitions += gen
        self.model_runs.append({"spec": spec, "cfg": label or cfg, "distinct_states": dist, "states_generated": gen, "wall_s": round(wall, 1)})
        return out

    def tlc_trace(self, spec, cfg, trace_path, timeout=1800, env=None):
        """Validate a trace file; returns the list of rejections printed by Report."""
        e = {"TRACE": trace_path}
        if env:
            e.update(env)
        out, rc, wall = self.tlc(spec, cfg, workers=1, env=e, timeout=timeout)
        if "Model checking completed. No error has been found" not in out:
            raise MachineryError("trace validation %s on %s failed:\n%s" % (spec, trace_path, out[-4000:]))
        m = re.search(r'<<"REJ", "(.*)">>', out)
        if not m:
            raise MachineryError("trace validation printed no report:\n" + out[-2000:])
        rej = json.loads(json.loads('"' + m.group(1) + '"'))
        m2 = re.search(r"(\d+) states generated, (\d+) distinct states found", out)
        if m2:
            self.extra["trace_states"] = self.extra.get("trace_states", 0) + int(m2.group(2))
        return rej

    # -------------------------------------------------------------- verdicts
    def known(self):
        p = os.path.join(VERIF, "known_findings.json")
        if not os.path.exists(p):
            return []
        return [k for k in json.load(open(p)) if k.get("status") == "known"]

    def classify(self, signature):
        """signature = '<Cxx>/...'. Returns the known-finding entry or None."""
        for k in self.known():
            if k["property"] == self.prop and (signature == k["signature"] or signature.startswith(k["signature"] + "/")):
                return k
        return None

    def report(self, signature, replay_writer, detail=""):
        """Record one rejected real-code execution."""
        k = self.classify(signature)
        if k is not None:
            self.known_hits[k["signature"]] += 1
            return
        path = replay_writer() if callable(replay_writer) else replay_writer
        self.violations.append((signature, path, detail))

    def replay_dir(self):
        d = os.path.join(VERIF, "replays", self.prop)
        os.makedirs(d, exist_ok=True)
        return d

    def finish(self, level, rule, coverage_extra=None):
        wall = time.time() - self.t0
        cov = {
            "evaluations": self.evaluations,
            "distinct_nontrivial": len(self.distinct),
            "rule": rule,
            "samples": self.samples[:5] or ["(none)"],
            "states": self.states,
            "transitions": self.transitions,
            "traces_validated_against_impl": self.traces_ok,
            "exhaustive": self.exhaustive,
            "model_runs": self.model_runs,
            "known_findings_hit": dict(self.known_hits),
            "checker_cmd": "./check %s --tier %s" % (self.prop, self.tier),
        }
        cov.update(self.extra)
        if coverage_extra:
            cov.update(coverage_extra)
        ev = {
            "property_id": self.prop, "tier": self.tier, "seed": self.seed, "level": level,
            "coverage": cov, "assumptions": self.assumptions, "wall_s": round(wall, 2),
            "violations": len(self.violations),
        }
        # evidence describes runs against /repo itself; runs pointed at a scratch tree (VERIF_REPO, used when
        # trying seeded changes) must not overwrite it
        # ... and neither must the replay of a single case (its "coverage" is that one case)
        evdir = os.path.join(VERIF, "evidence") if REPO == "/repo" and not getattr(self, "replaying", False) else os.path.join(tempfile.gettempdir(), "verif-evidence-scratch")
        os.makedirs(evdir, exist_ok=True)
        with open(os.path.join(evdir, self.prop + ".json"), "w") as f:
            json.dump(ev, f, indent=1, sort_keys=True)
            f.write("\n")
        for n in self.notes:
            print(n)
        for k in self.known():
            if k["property"] == self.prop and self.known_hits.get(k["signature"]):
                print("KNOWN-FINDING: property=%s %s [%s] (%d executions)" % (self.prop, k["what"], k["signature"], self.known_hits[k["signature"]]))
        seen = set()
        per_sig = collections.Counter()
        for sig, path, detail in self.violations:
            if (sig, path) in seen:
                continue
            seen.add((sig, path))
            per_sig[sig] += 1
            if per_sig[sig] <= 10:      # at most 10 replay files are listed per signature; the total is in the summary line
                print("VIOLATION property=%s replay=%s  (%s%s)" % (self.prop, path, sig, (": " + detail) if detail else ""))
        for sig, n in per_sig.items():
            if n > 10:
                print("... %d more rejected executions with signature %s" % (n - 10, sig))
        print("%s %s: %d model states, %d impl executions judged (%d accepted), %d violations, %d known-finding hits, %.1fs" % (
            self.prop, self.tier, self.states, self.traces, self.traces_ok, len(seen), sum(self.known_hits.values()), wall))
        shutil.rmtree(self.tmp, ignore_errors=True)
        return 1 if self.violations else 0

    def cleanup(self):
        shutil.rmtree(self.tmp, ignore_errors=True)


def read_ndjson(path):
    out = []
    with open(path) as f:
        for line in f:
            line = line.strip()
            if line:
                out.append(json.loads(line))
    return out


def split_runs(events):
    """Group trace lines into runs (Run ... End); returns list of (first_line_no, [events])."""
    runs, cur, start = [], None, 0
    for i, e in enumerate(events, 1):
        if e.get("ev") == "Run":
            cur, start = [], i
        if cur is not None:
            cur.append(e)
        if e.get("ev") == "End" and cur is not None:
            runs.append((start, cur))
            cur = None
    return runs


def shape_hash(run_events):
    """Hash of the abstract trace (α image) used to count distinct cases."""
    import hashlib
    return hashlib.sha1(json.dumps(run_events, sort_keys=True).encode()).hexdigest()
