"""C10: no input can crash or exhaust the process.

Model: spec/Hostile.tla - one operator per consumer of a length / size / count /
offset field (DESIGN appendix G) over anchored integers with Go's conversions;
TLC checks NoCrashNoOverAlloc for every row x magnitude, and that the rows as
coded before the fixes violate it (regression witness).  Binding: structured
mutation plans (every such field of 3-4 base files x ~20 magnitudes), record
truncations, splices, nested / unknown-compression chunks and seeded random byte
strings x 13 entry points (x stream/seekable for the lexer) run in isolated child
processes (address-space cap, per-input deadline with confirmation run, per-input
allocation accounting); TLC judges every outcome (TraceHostile.tla) and
recomputes the model's verdict for the mutated field (drift).
"""
import json
import os
import re

from vlib import MachineryError, read_ndjson

RULE = ("every length/size/count/offset field of the base files (chunked none/zstd(/lz4), unchunked; summary with all index kinds) set to 0, 1, 8, 9, 24, 25, v-1, v+1, "
        "rest-1, rest, rest+1, 2^31-1, 2^31, 2^32-9, 2^32-1, 2^32, 2^40, 2^63-1, 2^63, 2^64-9, 2^64-1; truncation at and inside every record prefix; record "
        "duplication/removal; nested chunks; unknown and over-long compression names; seeded random byte strings and byte mutations; each through 13 entry points; "
        "non-trivial = the case did not end as a clean read (error outcome); distinct = distinct (base, record, field, magnitude, entry point, source kind)")


def judge(ctx, trace, cases_path):
    out, rc, wall = ctx.tlc("TraceHostile.tla", "TraceHostile.cfg", workers=1, env={"TRACE": trace}, timeout=3000)
    if "Model checking completed. No error has been found" not in out:
        raise MachineryError("trace validation of hostile outcomes failed:\n" + out[-3000:])
    m = re.search(r'<<"REJ", "(.*)">>', out)
    d = re.search(r'<<"DRIFT", "(.*)">>', out)
    rej = json.loads(json.loads('"' + m.group(1) + '"'))
    drift = json.loads(json.loads('"' + d.group(1) + '"')) if d else []
    events = read_ndjson(trace)
    n = 0
    classes = {}
    for e in events:
        if e["ev"] != "Case":
            continue
        n += 1
        ctx.traces += 1
        ctx.evaluations += 1
        classes[e["class"]] = classes.get(e["class"], 0) + 1
        if e["class"] != "ok":
            ctx.distinct.add((e["base"], e["rec"], e["fld"], e["mag"], e["ep"], e["seek"]))
        if len(ctx.samples) < 5 and n % 9973 == 17:
            ctx.samples.append({k: e[k] for k in ("ep", "seek", "base", "rec", "fld", "mag", "kind", "size", "class", "allocKiB", "ms")})
    if n == 0:
        raise MachineryError("no hostile cases were run")
    ctx.extra["outcome_classes"] = classes
    ctx.extra["impl_layer_drift"] = len(drift)
    if classes.get("unconfirmed"):
        ctx.notes.append("%d cases that overran under parallel load were not re-run alone (their signature had overrun three times, or already had a confirmation run); no verdict was drawn from them" % classes["unconfirmed"])
    for line in drift[:3]:
        e = events[line - 1]
        ctx.notes.append("MODEL-DRIFT: Hostile.tla says %s.%s=%s is rejected at once, the code allocated %d KiB (%s)" % (e["rec"], e["fld"], e["mag"], e["allocKiB"], e["ep"]))
    bad = 0
    for r in rej:
        e = events[r["line"] - 1]
        for why in r["why"]:
            bad += 1
            sig = "%s/%s.%s" % (why, e["rec"], e["fld"]) if e["kind"] != "random" else why + "/random"

            def writer(i=e["i"]):
                p = os.path.join(ctx.replay_dir(), "case-%d.ndjson" % i)
                with open(cases_path) as f:
                    for k, line in enumerate(f):
                        if k == i:
                            c = json.loads(line)
                            c["i"] = 0
                            open(p, "w").write(json.dumps(c) + "\n")
                            break
                return p
            ctx.report(sig, writer, "%s %s mag=%s seek=%s: %s" % (e["ep"], e["kind"], e["mag"], e["seek"], e["where"][:160]))
    ctx.traces_ok += n - bad


def run(ctx, prop):
    ctx.build()
    ctx.tlc_model("Hostile.tla", "Hostile.cfg", workers=2)
    # regression witness: the consumers as coded before the fixes must violate the invariant in the model
    out, rc, wall = ctx.tlc("Hostile.tla", "Hostile_old.cfg", workers=2)
    if "Invariant OldNoCrashNoOverAlloc is violated" not in out:
        raise MachineryError("self-test failed: the pre-fix rows of Hostile.tla no longer violate NoCrashNoOverAlloc")
    ctx.extra["model_rows_x_magnitudes"] = 12 * 24
    # the same rows over the integers, for every 64-bit value and every parameter up to 2^22 (symbolic, Apalache), and the
    # agreement of the anchored rows with them on every anchored value
    ctx.apalache("HostileInt.tla", "HInit", "HNext", ["IntSafe", "AbstractionExact"])
    ctx.extra["symbolic"] = "HostileInt.tla: IntSafe and AbstractionExact hold for all v in 0..2^64-1, parameters in 1..2^22 (Apalache, length 0)"
    if ctx.tier == "thorough":
        for w in ("OldIntSafe1", "OldIntSafe2", "OldIntSafe3"):
            ctx.apalache("HostileInt.tla", "HInit", "HNext", [w], expect_error=True)
    d = os.path.join(ctx.tmp, "hostile")
    os.makedirs(d, exist_ok=True)
    trace = os.path.join(ctx.tmp, "hostile.ndjson")
    ctx.harness(["hrun", "-tier", ctx.tier, "-seed", ctx.seed, "-out", trace, "-dir", d], timeout=7000)
    judge(ctx, trace, os.path.join(d, "cases.ndjson"))
    ctx.assumptions += [
        "coverage-guided fuzzing is outside this technique family: inputs are TLC-motivated structured mutations plus seeded random bytes",
        "allocation is measured as runtime.MemStats.TotalAlloc per call; the ceiling is 2 GiB + working memory (one buffer at the documented ceiling), "
        "or a small multiple of the configured 1 MiB limits for the lexer with MaxRecordSize/MaxDecompressedChunkSize",
        "third-party decompressors (zstd, lz4) allocate within their own defaults",
    ]
    return ctx.finish("model_checking", RULE)


def replay(ctx, prop, path):
    ctx.build()
    d = os.path.join(ctx.tmp, "hostile")
    os.makedirs(d, exist_ok=True)
    trace = os.path.join(ctx.tmp, "hostile.ndjson")
    ctx.harness(["hrun", "-in", path, "-out", trace, "-dir", d, "-workers", 1], timeout=600)
    judge(ctx, trace, path)
    return ctx.finish("model_checking", RULE)
