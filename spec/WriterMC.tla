----------------------------- MODULE WriterMC -----------------------------
(***************************************************************************)
(* Exhaustive state machine over Writer.tla: every legal call sequence of  *)
(* bounded length over small abstract domains, for every configuration of  *)
(* the CONSTANT set Cfgs; at every closed state the produced file is       *)
(* judged by the property layer (C05 WellFormed/IndexExact/content, C06    *)
(* CRC ranges, C08 statistics).                                            *)
(***************************************************************************)
EXTENDS Writer, Json

CONSTANTS MaxCalls,      \* data calls after the header
          Times,         \* time ranks, the largest is TMAX
          SchemaIds, ChannelIds, DataLens,
          Chunkings,     \* set of <<chunked, chunkSize, comp>>
          FlagSets,      \* set of sets of flag names that are TRUE
          WithAux,       \* BOOLEAN: attachments and metadata in the workload
          MinCalls,      \* Close is enabled after this many data calls (0 in exhaustive runs; biases -simulate to long runs)
          WithAsm,       \* BOOLEAN: the caller also assembles chunks itself (AddSchema, AddChannel, WriteChunkWithIndexes)
          WithRefusals   \* BOOLEAN: calls the writer refuses (message on a channel it was never given, channel with a schema it was never given)

VARIABLES w, phase, calls
vars == <<w, phase, calls>>

TMAX == MaxOf(Times)
FlagNames == {"skipMsgIdx", "skipStats", "skipRepSchemas", "skipRepChannels", "skipAttIdx", "skipMdIdx", "skipChunkIdx", "skipSumOffsets", "skipMagic", "crc"}
CfgOf(c, fs) == [chunked |-> c[1], chunkSize |-> c[2], comp |-> c[3], crc |-> "crc" \in fs,
                 skipMsgIdx |-> "skipMsgIdx" \in fs, skipStats |-> "skipStats" \in fs, skipRepSchemas |-> "skipRepSchemas" \in fs,
                 skipRepChannels |-> "skipRepChannels" \in fs, skipAttIdx |-> "skipAttIdx" \in fs, skipMdIdx |-> "skipMdIdx" \in fs,
                 skipChunkIdx |-> "skipChunkIdx" \in fs, skipSumOffsets |-> "skipSumOffsets" \in fs, skipMagic |-> "skipMagic" \in fs]

(* compressed sizes are free: without compression equal to the uncompressed size *)
CSizes(wr) == IF wr.cfg.comp = "" THEN {wr.cpos} ELSE {7, wr.cpos + 11}

SchemaVal(id)      == [id |-> id, name |-> B(10 + id, 1), enc |-> B(0, 0), data |-> B(20 + id, 3)]
ChannelVal(id, sc) == [id |-> id, schema |-> sc, topic |-> B(30 + id, 2), menc |-> B(0, 0), md |-> IF id = 0 THEN <<>> ELSE <<[k |-> B(40, 1), v |-> B(41, 2)]>>]
MessageVal(ch, t, n, dl) == [ch |-> ch, seq |-> n, log |-> t, pub |-> t, data |-> B(IF dl = 0 THEN 0 ELSE 50 + n, dl)]
AttVal(n)  == [log |-> 1, create |-> 0, name |-> B(60, 2), media |-> B(0, 0), dsize |-> 4, data |-> B(61 + n, 4)]
MdVal(n)   == [name |-> B(70, 1), md |-> <<[k |-> B(71, 1), v |-> B(72 + n, 1)]>>]

Init ==
  /\ \E c \in Chunkings, fs \in FlagSets : w = NewWriter(CfgOf(c, fs), TMAX)
  /\ phase = "new" /\ calls = <<>>

DoHeader ==
  /\ phase = "new"
  /\ w' = WriteHeader(w, [profile |-> B(1, 1), library |-> B(2, 13)])
  /\ phase' = "open" /\ UNCHANGED calls

CanCall == phase = "open" /\ Len(calls) < MaxCalls

(* caller's contract: a definition precedes its use in the data section; adding it to the summary is not writing it *)
FlatSoFar == FoldLeft(LAMBDA acc, c : IF c.k = "Chunk" THEN acc \o c.items ELSE IF c.k \in {"Schema", "Channel", "Message"} THEN Append(acc, c) ELSE acc, <<>>, calls)
Written(kind, id) == \E i \in DOMAIN FlatSoFar : FlatSoFar[i].k = kind /\ FlatSoFar[i].id = id

DoSchema == CanCall /\ \E id \in SchemaIds :
  /\ w' = WriteSchema(w, SchemaVal(id))
  /\ calls' = Append(calls, [k |-> "Schema"] @@ SchemaVal(id)) /\ UNCHANGED phase

DoChannel == CanCall /\ \E id \in ChannelIds, sc \in {0} \cup SchemaIds :
  /\ ChannelOK(w, ChannelVal(id, sc))
  /\ (sc = 0 \/ Written("Schema", sc))       \* caller's contract: the schema record precedes the channel in the data (adding it is not writing it)
  /\ (HasId(w.channels, id) => \E i \in DOMAIN w.channels : w.channels[i].id = id /\ w.channels[i].schema = sc)  \* re-writes are identical
  /\ w' = WriteChannel(w, ChannelVal(id, sc))
  /\ calls' = Append(calls, [k |-> "Channel"] @@ ChannelVal(id, sc)) /\ UNCHANGED phase

DoMessage == CanCall /\ \E ch \in ChannelIds, t \in Times, dl \in DataLens :
  LET m == MessageVal(ch, t, Len(calls), dl) IN
  /\ MessageOK(w, m) /\ Written("Channel", ch)
  /\ \E cs \in (IF WillFlush(w, m) THEN CSizes([w EXCEPT !.cpos = @ + MkMessage(0, m).len]) ELSE {0}) : w' = WriteMessage(w, m, cs)
  /\ calls' = Append(calls, [k |-> "Message"] @@ m) /\ UNCHANGED phase

DoAttachment == CanCall /\ WithAux
  /\ w' = WriteAttachment(w, AttVal(Len(calls)))
  /\ calls' = Append(calls, [k |-> "Attachment"] @@ AttVal(Len(calls))) /\ UNCHANGED phase

DoMetadata == CanCall /\ WithAux
  /\ w' = WriteMetadata(w, MdVal(Len(calls)))
  /\ calls' = Append(calls, [k |-> "Metadata"] @@ MdVal(Len(calls))) /\ UNCHANGED phase

(* a call outside the writer's enabling conditions is answered with an error and changes nothing: not the position, not
   the chunk buffer, not the statistics (the call is counted so that it takes a place in the sequence) *)
DoRefused == CanCall /\ WithRefusals
  /\ \/ \E ch \in ChannelIds : ~MessageOK(w, MessageVal(ch, 0, 0, 0))
     \/ \E id \in ChannelIds, sc \in SchemaIds : ~ChannelOK(w, ChannelVal(id, sc))
  /\ calls' = Append(calls, [k |-> "Refused"]) /\ UNCHANGED <<w, phase>>

DoClose ==
  /\ phase = "open" /\ Len(calls) >= MinCalls
  /\ \E cs \in (IF w.cfg.chunked /\ w.cpos > 0 THEN CSizes(w) ELSE {0}) : w' = Close(w, cs)
  /\ phase' = "closed" /\ UNCHANGED calls

(* ---- the remuxing entry points.  The caller's side of the contract is part of the enabling conditions: an assembled
   chunk carries the channel record of every message in it (so it is self-contained), its schema-less or already
   written schema, true times and exact indexes; it is handed over only while the writer's own chunk buffer is empty
   (otherwise the file order differs from the call order by the caller's own doing). *)
RegisteredChannel(id) == IF HasId(w.channels, id) THEN w.channels[CHOOSE i \in DOMAIN w.channels : w.channels[i].id = id] ELSE ChannelVal(id, 0)

DoAddSchema == CanCall /\ WithAsm /\ \E id \in SchemaIds :
  /\ w' = AddSchema(w, SchemaVal(id))
  /\ calls' = Append(calls, [k |-> "AddSchema"] @@ SchemaVal(id)) /\ UNCHANGED phase

DoAddChannel == CanCall /\ WithAsm /\ \E id \in ChannelIds :
  /\ w' = AddChannel(w, RegisteredChannel(id))
  /\ calls' = Append(calls, [k |-> "AddChannel"] @@ RegisteredChannel(id)) /\ UNCHANGED phase

ChunkForms == {"def", "def+msg", "def+msg+msg", "two-channels"}     \* both overridden in the quick configuration
IdxModes   == {"exact", "none", "extra"}
Forms_quick == {"def+msg", "two-channels"}
Idx_quick   == {"exact", "none"}
ItemsOf(form, ch, t1, t2, n) ==
  LET c == [k |-> "Channel"] @@ RegisteredChannel(ch)
      m(t, q) == [k |-> "Message"] @@ MessageVal(ch, t, q, 5) IN
  CASE form = "def" -> <<c>>
    [] form = "def+msg" -> <<c, m(t1, n)>>
    [] form = "def+msg+msg" -> <<c, m(t1, n), m(t2, n + 100)>>
    [] OTHER -> LET o == CHOOSE x \in ChannelIds : x # ch \/ Cardinality(ChannelIds) = 1
                    co == [k |-> "Channel"] @@ RegisteredChannel(o) IN
                <<c, co, [k |-> "Message"] @@ MessageVal(o, t2, n, 0), m(t1, n + 100)>>

DoExtChunk == CanCall /\ WithAsm /\ w.cpos = 0 /\ \E form \in ChunkForms, ch \in ChannelIds, t1, t2 \in Times, idx \in IdxModes :
  LET items == ItemsOf(form, ch, t1, t2, Len(calls))
      \* a channel whose schema is not 0 is usable only when that schema was written (not merely added) before
      usable == \A i \in DOMAIN items : items[i].k = "Channel" => (items[i].schema = 0 \/ Written("Schema", items[i].schema))
      c0 == ExtChunk(items, "", 0, ~w.cfg.crc)
      c == [c0 EXCEPT !.csize = c0.usize]
      exact == ExactIdx(c.inner)
      given == CASE idx = "exact" -> exact
                 [] idx = "none" -> <<>>
                 [] OTHER -> <<[ch |-> 9, entries |-> <<>>]>> \o exact IN
  /\ usable
  /\ (form = "def" => t1 = 0 /\ t2 = 0) /\ (form = "def+msg" => t2 = t1)        \* unused parameters are fixed (no duplicate transitions)
  /\ (idx = "none" => w.cfg.skipMsgIdx)             \* handing over no indexes is the caller's way of skipping them
  \* ... and then a chunk whose messages all have log time 0 is indistinguishable from one without messages: as coded
  \* it does not extend the statistics time range, so the caller has to pass the indexes (or set the range itself)
  /\ (idx = "none" => (c.start # 0 \/ c.end # 0 \/ \A i \in DOMAIN items : items[i].k # "Message"))
  /\ w' = CallerCounts(WriteChunkWithIndexes(w, c, given), items)
  /\ calls' = Append(calls, [k |-> "Chunk", items |-> items, idx |-> idx, comp |-> ""]) /\ UNCHANGED phase

Next == DoHeader \/ DoSchema \/ DoChannel \/ DoMessage \/ DoAttachment \/ DoMetadata \/ DoClose \/ DoRefused
        \/ DoAddSchema \/ DoAddChannel \/ DoExtChunk
Spec == Init /\ [][Next]_vars

(* ------------------------------------------------ constants for the .cfg files *)
AllSkips == {"skipMsgIdx", "skipStats", "skipRepSchemas", "skipRepChannels", "skipAttIdx", "skipMdIdx", "skipChunkIdx", "skipSumOffsets"}
Chunkings_small == { <<FALSE, 0, "">>, <<TRUE, 1, "">>, <<TRUE, 40, "zstd">>, <<TRUE, 1000, "lz4">> }
Chunkings_two   == { <<FALSE, 0, "">>, <<TRUE, 40, "">> }
Chunkings_sim   == { <<FALSE, 0, "">>, <<TRUE, 1, "">>, <<TRUE, 40, "">>, <<TRUE, 100, "xor">>, <<TRUE, 1000, "">> }
Flags_few  == { {}, {"crc"}, AllSkips \ {"skipSumOffsets"}, {"skipSumOffsets", "skipMagic", "crc"} }
OldChunkIndexTrue == TRUE
Flags_asm_quick == { {"crc"}, {"skipMsgIdx", "skipRepChannels"} }
Flags_asm  == { {"crc"}, {"skipMsgIdx"}, {"skipRepChannels", "skipStats", "crc"}, {"skipChunkIdx", "skipSumOffsets"} }
Flags_all  == SUBSET (AllSkips \cup {"crc"})          \* 512 combinations (skipMagic only shifts every position by 8)
Flags_all_magic == {fs \cup m : fs \in SUBSET AllSkips, m \in {{}, {"skipMagic", "crc"}}}

(* ------------------------------------------------------------ properties *)
FlatCalls == FlatSoFar
ContentOfCalls ==
  [data |-> FlatCalls,
   atts |-> Sel(calls, LAMBDA c : c.k = "Attachment"),
   mds  |-> Sel(calls, LAMBDA c : c.k = "Metadata")]
(* what the caller registered with the writer, by writing or by adding it: the summary repeats exactly these; a
   channel or schema that only occurs inside an assembled chunk is not known to the writer *)
RegS == FirstById(Sel(calls, LAMBDA c : c.k \in {"Schema", "AddSchema"}))
RegC == FirstById(Sel(calls, LAMBDA c : c.k \in {"Channel", "AddChannel"}))

Closed == phase = "closed"
F == FileOf(w)

WellFormedInv == Closed => Failed("C05", WellFormedNames(F)) = {} /\ ChunksOK(F) /\ F.lead = ~w.cfg.skipMagic
IndexExactInv == Closed => Failed("C05", IndexExactNamesR(F, w.cfg, RegS, RegC)) = {}
ContentInv    == Closed => Failed("C05", SameContentNames(ContentOfCalls, FileContent(F))) = {}
CrcInv        == Closed => Failed("C06", CrcNames(F, w.cfg)) = {}
StatsInv      == (Closed /\ ~w.cfg.skipStats) =>
                   LET sr == Sel(SummaryRecs(F), LAMBDA r : r.k = "Statistics") IN
                   Len(sr) = 1 /\ Failed("C08", StatsNamesR(sr[1], ContentOfCalls, Cardinality(KindIdx(F, "Chunk")), {x.r.id : x \in Range(RegS)}, {x.r.id : x \in Range(RegC)})) = {}
(* the public statistics are exact after every call, not only at Close (stronger than C08 needs) *)
LiveStatsInv  == phase = "open" =>
                   LET ms == Sel(FlatCalls, LAMBDA c : c.k = "Message")  ts == {m.log : m \in Range(ms)} IN
                   /\ w.stats.msgs = Len(ms)
                   /\ w.stats.start = (IF ts = {} THEN 0 ELSE MinOf(ts)) /\ w.stats.end = (IF ts = {} THEN 0 ELSE MaxOf(ts))
(* behaviour export for the replay direction (spec -> code): printed once per closed state under -simulate *)
Export == Closed => PrintT(<<"BEH", ToJson([cfg |-> w.cfg, tmax |-> TMAX, calls |-> calls, proj |-> Proj(w), layout |-> [i \in DOMAIN w.out |-> <<w.out[i].k, w.out[i].pos, w.out[i].len>>]])>>)

(* offsets only grow; indexes only grow (action properties) *)
Monotone == [][w'.pos >= w.pos /\ Len(w'.chunkIdx) >= Len(w.chunkIdx) /\ Len(w'.out) >= Len(w.out)]_vars
==========================================================================
