----------------------------- MODULE ReadProps -----------------------------
(***************************************************************************)
(* Property layer for sequential reads under truncation (C09), arbitrary   *)
(* delivery and source faults (C15) and payload corruption (C07).          *)
(* An observation `e` of a read is relative to the full read of the same   *)
(* file through the same path: e.idx[j] is the index in the full read of   *)
(* the token equal to the j-th observed token (0 = equals none, -1 = the   *)
(* invalid-chunk token), e.n the number of observed tokens, e.end how the  *)
(* read ended (eof | error | panic), e.short the positions of attachments  *)
(* that surfaced degraded (fewer data bytes / unreadable CRC).             *)
(***************************************************************************)
EXTENDS MCAPFormat

Iota(n) == [i \in 1 .. n |-> i]

(* number of tokens the de-chunking lexer (with attachment callback) emits for one top-level record *)
TokCount(r) ==
  CASE r.k = "Chunk"   -> Cardinality({j \in DOMAIN r.inner : r.inner[j].k # "Unknown"})
    [] r.k = "Unknown" -> 0
    [] OTHER -> 1
MsgCount(r) ==
  CASE r.k = "Chunk"   -> Cardinality({j \in DOMAIN r.inner : r.inner[j].k = "Message"})
    [] r.k = "Message" -> 1
    [] OTHER -> 0
Count(f, via, r) == IF via = "lex" THEN TokCount(r) ELSE MsgCount(r)

NumToks(f, via)        == Sum([i \in DOMAIN f.recs |-> Count(f, via, f.recs[i])])
ToksBefore(f, via, ri) == Sum([i \in 1 .. ri - 1 |-> Count(f, via, f.recs[i])])
(* tokens of the records that lie completely before byte `cut` *)
MustHave(f, via, cut)  == Sum([i \in DOMAIN f.recs |-> IF f.recs[i].pos + f.recs[i].len <= cut THEN Count(f, via, f.recs[i]) ELSE 0])

(* the same without the messages at log time 2^64-1 (rank tmax), which a read through Reader.Messages without an end
   option does not return at all (known finding of C01 - C04) *)
MsgCountX(r, tmax) ==
  CASE r.k = "Chunk"   -> Cardinality({j \in DOMAIN r.inner : r.inner[j].k = "Message" /\ r.inner[j].log # tmax})
    [] r.k = "Message" -> IF r.log # tmax THEN 1 ELSE 0
    [] OTHER -> 0
MustHaveX(f, via, cut, tmax) ==
  IF via = "lex" THEN MustHave(f, via, cut)
  ELSE Sum([i \in DOMAIN f.recs |-> IF f.recs[i].pos + f.recs[i].len <= cut THEN MsgCountX(f.recs[i], tmax) ELSE 0])

IsPrefixObs(e, fulln) == e.n <= fulln /\ e.idx = Iota(e.n)
(* a degraded attachment may only be the last thing returned before an error *)
ShortOK(e) == e.short = <<>> \/ e.short = <<e.n>>

(* C09 *)
PrefixReadNames(e, f, fulln, tmax) ==
  LET via == IF e.via = "lex" THEN "lex" ELSE "msg" IN
  << <<"Prefix",     IsPrefixObs(e, fulln)>>,
     <<"Ending",     e["end"] \in {"eof", "error"}>>,
     <<"Attachment", ShortOK(e)>>,
     <<"Complete",   e.n >= MustHaveX(f, via, e.cut, tmax)>>,
     \* only the messages at 2^64-1 of completely written chunks are missing: the known finding seen through a cut file
     <<"Complete/LogTimeMaxNotReturned", e.n >= MustHave(f, via, e.cut) \/ e.n < MustHaveX(f, via, e.cut, tmax)>> >>

(* C15: delivery independence *)
FragmentedNames(e, full) ==
  << <<"SameTokens", e.n = full.n /\ e.idx = Iota(full.n) /\ e.short = <<>> >>,
     <<"SameEnding", e["end"] = full["end"]>> >>

(* C15: an I/O error is an error, and what came before it is a prefix *)
SourceFaultNames(e, full) ==
  IF ~e.fired THEN FragmentedNames(e, full)
  ELSE << <<"Prefix",       IsPrefixObs(e, full.n) /\ ShortOK(e)>>,
          <<"ErrorNotEOF",  e["end"] = "error">> >>

(* C07: P tokens before the damaged record, C tokens in it *)
NoSilentCorruption(e, fulln, P, C) ==
  \/ e["end"] = "eof" /\ e.n = fulln /\ e.idx = Iota(fulln)                                   \* benign
  \/ e["end"] = "error" /\ e.idx = Iota(e.n) /\ P <= e.n /\ e.n <= P + C                      \* stopped no later than the chunk
  \/ /\ e.emitInvalid /\ e.n > P /\ e.n <= fulln - C + 1                                        \* reported by an invalid-chunk token,
     /\ e.idx = Iota(P) \o <<-1>> \o [i \in 1 .. e.n - P - 1 |-> P + C + i]                     \* then original records only
     /\ (e["end"] = "eof" => e.n = fulln - C + 1) /\ e["end"] \in {"eof", "error"}

AttachmentExposed(e, fulln, P) ==
  /\ e["end"] \in {"eof", "error"}
  /\ e.n <= fulln
  /\ \A j \in 1 .. e.n : j # P + 1 => e.idx[j] = j
  /\ (e.attseen => ~e.attmatch)
==========================================================================
