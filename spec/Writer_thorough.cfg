SPECIFICATION Spec
CONSTANTS
  MaxCalls = 5
  Times = {0, 1, 2}
  SchemaIds = {1}
  ChannelIds = {0, 1}
  DataLens = {0, 5}
  Chunkings <- Chunkings_small
  FlagSets <- Flags_few
  WithAux = TRUE
  MinCalls = 0
  WithAsm = FALSE
  WithRefusals = FALSE
INVARIANTS WellFormedInv IndexExactInv ContentInv CrcInv StatsInv LiveStatsInv
PROPERTY Monotone
CHECK_DEADLOCK FALSE
