SPECIFICATION Spec
CONSTANTS
  NChunks = 2
  MaxMsgs = 2
  Times = {0, 1, 2}
  Orders = {"log", "rlog"}
  Wide = TRUE
INVARIANTS SelectExact OrderedRead MemBound QueueSorted
PROPERTIES YieldSafe
CHECK_DEADLOCK FALSE
