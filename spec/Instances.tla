----------------------------- MODULE Instances -----------------------------
(***************************************************************************)
(* C13: several writer instances used in one process, interleaved at the    *)
(* granularity of API calls.  Each instance owns its state (Writer.tla);     *)
(* the only package-level state go/mcap has - the Magic byte slice and the   *)
(* Version string - is modelled as a shared variable that no action writes.  *)
(* TLC explores every interleaving of the instances' call sequences and      *)
(* checks that each instance ends with exactly the file a solo run of its    *)
(* calls produces, and that the serialisation of a map does not depend on    *)
(* the order in which the map hands out its entries.  The interleavings are  *)
(* exported and replayed against the real writer.                            *)
(***************************************************************************)
EXTENDS Writer, Json

CONSTANTS NInst, Workloads      \* Workloads: set of call sequences (each a Seq of [op, ...])

VARIABLES ws, pending, shared, sched, given
vars == <<ws, pending, shared, sched, given>>

Cfg0 == [chunked |-> TRUE, chunkSize |-> 40, comp |-> "", crc |-> TRUE, skipMsgIdx |-> FALSE, skipStats |-> FALSE, skipRepSchemas |-> FALSE,
         skipRepChannels |-> FALSE, skipAttIdx |-> FALSE, skipMdIdx |-> FALSE, skipChunkIdx |-> FALSE, skipSumOffsets |-> FALSE, skipMagic |-> FALSE]

(* a map argument arrives as a set; Go hands out its entries in an arbitrary order; makePrefixedMap sorts by key *)
SortByKey(entries) == SortSeq(entries, LAMBDA a, b : a.k.id < b.k.id)
Perms(S) == {p \in [1 .. Cardinality(S) -> S] : \A i, j \in DOMAIN p : p[i] = p[j] => i = j}
MapOrderIndependent(S) == \A p, q \in Perms(S) : SortByKey(p) = SortByKey(q)

Apply(w, c) ==
  CASE c.op = "header"   -> WriteHeader(w, [profile |-> B(1, 1), library |-> B(2, 13)])
    [] c.op = "schema"   -> WriteSchema(w, [id |-> c.id, name |-> B(10 + c.id, 1), enc |-> B(0, 0), data |-> B(20 + c.id, 3)])
    [] c.op = "channel"  -> WriteChannel(w, [id |-> c.id, schema |-> c.schema, topic |-> B(30 + c.id, 2), menc |-> B(0, 0), md |-> SortByKey(c.md)])
    [] c.op = "message"  -> LET m == [ch |-> c.ch, seq |-> c.n, log |-> c.t, pub |-> c.t, data |-> B(50 + c.n, 5)] IN
                            WriteMessage(w, m, IF WillFlush(w, m) THEN w.cpos + MkMessage(0, m).len ELSE 0)
    [] c.op = "metadata" -> WriteMetadata(w, [name |-> B(70, 1), md |-> SortByKey(c.md)])
    [] c.op = "close"    -> Close(w, w.cpos)

RECURSIVE Solo(_, _)
Solo(w, cs) == IF cs = <<>> THEN w ELSE Solo(Apply(w, Head(cs)), Tail(cs))

Init ==
  /\ pending \in [1 .. NInst -> Workloads]
  /\ given = pending
  /\ ws = [i \in 1 .. NInst |-> NewWriter(Cfg0, 3)]
  /\ shared = [magic |-> "MCAP0", version |-> "v"]
  /\ sched = <<>>

Step(i) ==
  /\ pending[i] # <<>>
  /\ ws' = [ws EXCEPT ![i] = Apply(@, Head(pending[i]))]
  /\ pending' = [pending EXCEPT ![i] = Tail(@)]
  /\ sched' = Append(sched, i)
  /\ UNCHANGED <<shared, given>>
Next == \E i \in 1 .. NInst : Step(i)
Spec == Init /\ [][Next]_vars

Done == \A i \in 1 .. NInst : pending[i] = <<>>
(* every instance ends with exactly the state (hence the file) of a solo run of its own calls *)
Independent == Done => \A i \in 1 .. NInst : ws[i] = Solo(NewWriter(Cfg0, 3), given[i])
SharedUntouched == shared = [magic |-> "MCAP0", version |-> "v"]
MapOrder == MapOrderIndependent({[k |-> B(1, 1), v |-> B(5, 1)], [k |-> B(2, 1), v |-> B(6, 1)], [k |-> B(3, 2), v |-> B(7, 0)]})
Export == Done => PrintT(<<"SCHED", ToJson([sched |-> sched, lens |-> [i \in 1 .. NInst |-> Len(given[i])]])>>)
==========================================================================
