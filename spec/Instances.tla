----------------------------- MODULE Instances -----------------------------
(***************************************************************************)
(* C13: several writer instances used in one process, interleaved at the    *)
(* granularity of API calls.  Each instance owns its state (Writer.tla);     *)
(* the only package-level state go/mcap has - the Magic byte slice and the   *)
(* Version string - is modelled as a shared variable that no action writes.  *)
(* TLC explores every interleaving of the instances' call sequences and      *)
(* checks that each instance ends with exactly the file a solo run of its    *)
(* calls produces, and that the serialisation of a map does not depend on    *)
(* the order in which the map hands out its entries.  The interleavings are  *)
(* exported and replayed against the real writer.                            *)
(***************************************************************************)
EXTENDS Writer, Json

CONSTANTS NInst, Workloads      \* Workloads: set of call sequences (each a Seq of [op, ...])

VARIABLES ws, pending, shared, sched, given,
          optsOf,     \* which options object (the *WriterOptions value the caller passes to NewWriter) each instance is created from
          optvals,    \* the options objects: NewWriter fills in the default chunk size in the caller's value (as coded)
          created
vars == <<ws, pending, shared, sched, given, optsOf, optvals, created>>

Cfg0 == [chunked |-> TRUE, chunkSize |-> 40, comp |-> "", crc |-> TRUE, skipMsgIdx |-> FALSE, skipStats |-> FALSE, skipRepSchemas |-> FALSE,
         skipRepChannels |-> FALSE, skipAttIdx |-> FALSE, skipMdIdx |-> FALSE, skipChunkIdx |-> FALSE, skipSumOffsets |-> FALSE, skipMagic |-> FALSE]

(* a map argument arrives as a set; Go hands out its entries in an arbitrary order; makePrefixedMap sorts by key *)
SortByKey(entries) == SortSeq(entries, LAMBDA a, b : a.k.id < b.k.id)
Perms(S) == {p \in [1 .. Cardinality(S) -> S] : \A i, j \in DOMAIN p : p[i] = p[j] => i = j}
MapOrderIndependent(S) == \A p, q \in Perms(S) : SortByKey(p) = SortByKey(q)

Apply(w, c) ==
  CASE c.op = "header"   -> WriteHeader(w, [profile |-> B(1, 1), library |-> B(2, 13)])
    [] c.op = "schema"   -> WriteSchema(w, [id |-> c.id, name |-> B(10 + c.id, 1), enc |-> B(0, 0), data |-> B(20 + c.id, 3)])
    [] c.op = "channel"  -> WriteChannel(w, [id |-> c.id, schema |-> c.schema, topic |-> B(30 + c.id, 2), menc |-> B(0, 0), md |-> SortByKey(c.md)])
    [] c.op = "message"  -> LET m == [ch |-> c.ch, seq |-> c.n, log |-> c.t, pub |-> c.t, data |-> B(50 + c.n, 5)] IN
                            WriteMessage(w, m, IF WillFlush(w, m) THEN w.cpos + MkMessage(0, m).len ELSE 0)
    [] c.op = "metadata" -> WriteMetadata(w, [name |-> B(70, 1), md |-> SortByKey(c.md)])
    [] c.op = "close"    -> Close(w, w.cpos)

RECURSIVE Solo(_, _)
Solo(w, cs) == IF cs = <<>> THEN w ELSE Solo(Apply(w, Head(cs)), Tail(cs))

(* an options value as the caller wrote it: the chunk size is left unset (0); NewWriter writes the default into it *)
Opts0 == [Cfg0 EXCEPT !.chunkSize = 0]
Normalise(o) == IF o.chunked /\ o.chunkSize = 0 THEN [o EXCEPT !.chunkSize = 40] ELSE o      \* 40 stands for the default

Init ==
  /\ pending \in [1 .. NInst -> Workloads]
  /\ given = pending
  \* instances may be created from one and the same options value (restricted growth: canonical naming of the sharing)
  /\ optsOf \in {f \in [1 .. NInst -> 1 .. NInst] : f[1] = 1 /\ \A i \in 2 .. NInst : f[i] <= 1 + MaxOf({f[j] : j \in 1 .. i - 1})}
  /\ optvals = [o \in 1 .. NInst |-> Opts0]
  /\ created = [i \in 1 .. NInst |-> FALSE]
  /\ ws = [i \in 1 .. NInst |-> NewWriter(Cfg0, 3)]
  /\ shared = [magic |-> "MCAP0", version |-> "v"]
  /\ sched = <<>>

(* NewWriter(sink, opts): reads the options value, writes the default chunk size back into it, builds a writer that owns
   every piece of mutable state it uses (buffers, compressor, tables) *)
Create(i) ==
  /\ ~created[i]
  /\ LET o == Normalise(optvals[optsOf[i]]) IN
     /\ optvals' = [optvals EXCEPT ![optsOf[i]] = o]
     /\ ws' = [ws EXCEPT ![i] = NewWriter(o, 3)]
  /\ created' = [created EXCEPT ![i] = TRUE]
  /\ sched' = Append(sched, i)
  /\ UNCHANGED <<pending, shared, given, optsOf>>

Step(i) ==
  /\ created[i] /\ pending[i] # <<>>
  /\ ws' = [ws EXCEPT ![i] = Apply(@, Head(pending[i]))]
  /\ pending' = [pending EXCEPT ![i] = Tail(@)]
  /\ sched' = Append(sched, i)
  /\ UNCHANGED <<shared, given, optsOf, optvals, created>>
Next == \E i \in 1 .. NInst : Create(i) \/ Step(i)
Spec == Init /\ [][Next]_vars

Done == \A i \in 1 .. NInst : created[i] /\ pending[i] = <<>>
(* every instance ends with exactly the state (hence the file) of a solo run of its own calls *)
Independent == Done => \A i \in 1 .. NInst : ws[i] = Solo(NewWriter(Cfg0, 3), given[i])
SharedUntouched == shared = [magic |-> "MCAP0", version |-> "v"]
MapOrder == MapOrderIndependent({[k |-> B(1, 1), v |-> B(5, 1)], [k |-> B(2, 1), v |-> B(6, 1)], [k |-> B(3, 2), v |-> B(7, 0)]})
(* an options value is only ever completed with defaults: what a later NewWriter reads from it is what the first one read *)
OptionsStable == \A o \in 1 .. NInst : optvals[o] \in {Opts0, Normalise(Opts0)}
(* sched[k] = i: the next step of instance i, whose first step is its creation *)
Export == Done => PrintT(<<"SCHED", ToJson([sched |-> sched, lens |-> [i \in 1 .. NInst |-> Len(given[i])], share |-> optsOf])>>)
==========================================================================
