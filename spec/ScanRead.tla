------------------------------ MODULE ScanRead ------------------------------
(***************************************************************************)
(* Implementation-layer model of the unindexed message iterator             *)
(* (go/mcap/unindexed_message_iterator.go NextInto) over the token stream    *)
(* the de-chunking lexer hands it: the whole file, summary section           *)
(* included.  State: the schema table and the channel table (slicemaps:      *)
(* the last definition of an id wins; a channel whose topic is not selected  *)
(* is not stored), the window [start, end) with the exclusive end, and what  *)
(* was yielded.  One step per token; pure operators on one state record so   *)
(* that the same operators serve the exhaustive machine (ScanReadMC) and     *)
(* the replay of recorded scans (TraceWriterImpl).                           *)
(***************************************************************************)
EXTENDS Integers, Sequences, FiniteSets, SequencesExt, Functions, TLC

(* a token is [k |-> "Schema", id, ...] | [k |-> "Channel", id, schema, topic, ...] | [k |-> "Message", ch, log, ...] | other *)
NewScan(topics, start, end) ==
  [schemas |-> <<>>, channels |-> <<>>, topics |-> topics, start |-> start, end |-> end, out |-> <<>>, err |-> FALSE]

Put(table, r) == IF \E i \in DOMAIN table : table[i].id = r.id
                 THEN [i \in DOMAIN table |-> IF table[i].id = r.id THEN r ELSE table[i]]      \* last definition wins
                 ELSE Append(table, r)
Get(table, id) == LET xs == SelectSeq(table, LAMBDA r : r.id = id) IN xs       \* <<>> or <<r>>

ScanStep(s, t) ==
  IF s.err THEN s
  ELSE CASE t.k = "Schema"  -> [s EXCEPT !.schemas = Put(@, t)]
         [] t.k = "Channel" -> IF s.topics = {} \/ t.topic \in s.topics THEN [s EXCEPT !.channels = Put(@, t)] ELSE s
         [] t.k = "Message" ->
              LET c == Get(s.channels, t.ch) IN
              IF c = <<>> THEN s                                   \* a message on a channel not (yet) known is skipped
              ELSE IF ~(t.log >= s.start /\ t.log < s.end) THEN s  \* exclusive end, also for the default end 2^64-1
              ELSE LET sc == Get(s.schemas, c[1].schema) IN
                   IF sc = <<>> /\ c[1].schema # 0 THEN [s EXCEPT !.err = TRUE]        \* channel with unrecognized schema
                   ELSE [s EXCEPT !.out = Append(@, [msg |-> t, channel |-> c[1], schema |-> sc])]
         [] OTHER -> s

ScanAll(tokens, topics, start, end) == FoldLeft(ScanStep, NewScan(topics, start, end), tokens)
==========================================================================
