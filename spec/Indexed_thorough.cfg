SPECIFICATION Spec
CONSTANTS
  NChunks = 3
  MaxMsgs = 2
  Times = {0, 1}
  Orders = {"file", "log", "rlog"}
  Wide = FALSE
INVARIANTS SelectExact FileOrderRead OrderedRead MemBound QueueSorted
PROPERTIES YieldSafe Terminates
CHECK_DEADLOCK FALSE
