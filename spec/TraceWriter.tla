--------------------------- MODULE TraceWriter ---------------------------
(***************************************************************************)
(* Total acceptor for traces of the real Go writer (and of the sequential  *)
(* reads of what it wrote).  One state per trace line.  The abstract state *)
(* `st` is the property-layer meaning of the calls made so far (the        *)
(* logical content handed to the writer); every property conjunct that an  *)
(* event fails is appended, by name, to `rej`.  Properties: C01, C05, C06, *)
(* C08 (and the sequential half of the C02 metadata-callback clause).      *)
(***************************************************************************)
EXTENDS MCAPFormat, RosConv, Json, IOUtils

Trace == ndJsonDeserialize(IOEnv.TRACE)

VARIABLES l, st, rej
vars == <<l, st, rej>>

NoRun == [id |-> "", phase |-> "none"]

NewRun(e) == [id |-> e.id, phase |-> "new", cfg |-> e.cfg, tmax |-> e.tmax, lib |-> e.lib,
              header |-> <<>>, data |-> <<>>, atts |-> <<>>, mds |-> <<>>, file |-> <<>>, bad |-> FALSE, src |-> <<>>,
              reg |-> <<>>, asm |-> FALSE]      \* reg: what the caller registered by writing or adding it; asm: the caller assembled chunks / added definitions

(* a call is expected to succeed unless it is an attachment whose source misbehaves *)
Refused(e) == "refused" \in DOMAIN e /\ e.refused
(* ... or a call the writer must refuse: a message on a channel it was never given, a channel whose schema it was never
   given.  A refused call leaves no trace: ApplyCall ignores it, and the statistics, indexes and content of the file are
   judged against the accepted calls only. *)
ExpectOK(e) == ~(e.op = "attachment" /\ e.src # "") /\ ~Refused(e)

DataItem(e) ==
  CASE e.op = "schema"  -> [k |-> "Schema", id |-> e.id, name |-> e.name, enc |-> e.enc, data |-> e.data]
    [] e.op = "channel" -> [k |-> "Channel", id |-> e.id, schema |-> e.schema, topic |-> e.topic, menc |-> e.menc, md |-> e.md]
    [] e.op = "message" -> [k |-> "Message", ch |-> e.ch, seq |-> e.seq, log |-> e.log, pub |-> e.pub, data |-> e.data]

ApplyCall(s, e) ==
  IF e.ret # "ok" THEN s
  ELSE CASE e.op = "header" -> [s EXCEPT !.header = <<[profile |-> e.profile, library |-> e.explib]>>, !.phase = "open"]
         [] e.op \in {"schema", "channel"} -> [s EXCEPT !.data = Append(@, DataItem(e)), !.reg = Append(@, DataItem(e))]
         [] e.op = "message" -> [s EXCEPT !.data = Append(@, DataItem(e))]
         [] e.op = "addschema"  -> [s EXCEPT !.reg = Append(@, DataItem([e EXCEPT !.op = "schema"])), !.asm = TRUE]
         [] e.op = "addchannel" -> [s EXCEPT !.reg = Append(@, DataItem([e EXCEPT !.op = "channel"])), !.asm = TRUE]
         [] e.op = "chunk" -> [s EXCEPT !.data = IF e.usize = 0 THEN @ ELSE @ \o e.items, !.asm = TRUE]
         [] e.op = "attachment" -> [s EXCEPT !.atts = Append(@, [log |-> e.log, create |-> e.create, name |-> e.name,
                                                              media |-> e.media, dsize |-> e.dsize, data |-> e.data])]
         [] e.op = "metadata" -> [s EXCEPT !.mds = Append(@, [name |-> e.name, md |-> e.md])]
         [] e.op = "close" -> [s EXCEPT !.phase = "closed"]
         [] OTHER -> s

Content(s) == [data |-> s.data, atts |-> s.atts, mds |-> s.mds]

(* ------------------------------------------------------------------ file *)
StatsRec(f) == Sel(SummaryRecs(f), LAMBDA r : r.k = "Statistics")

JudgeFile(s, f) ==
  LET wf == Failed("C05", WellFormedNames(f)) IN
  IF s.phase # "closed" THEN {}
  ELSE IF wf # {} THEN wf
  ELSE IF ~ChunksOK(f) THEN {"C05/ChunkPayload"}
  ELSE IF f.lead = s.cfg.skipMagic THEN {"C05/LeadingMagic"}
  ELSE LET fc == FileContent(f)
           hdr == f.recs[1]
           sr == StatsRec(f)
           ext == "external" \in DOMAIN s.cfg        \* written by a converter: the logical content is judged separately (C18)
           cont == IF ext THEN fc ELSE Content(s)
           \* the definitions the summary repeats: what the caller registered (assembling runs), else what the data holds
           ds == IF s.asm THEN FirstById(Sel(s.reg, LAMBDA r : r.k = "Schema")) ELSE DataDefs(f, "Schema")
           dc == IF s.asm THEN FirstById(Sel(s.reg, LAMBDA r : r.k = "Channel")) ELSE DataDefs(f, "Channel")
           sids == IF s.asm THEN {x.r.id : x \in Range(ds)} ELSE {r.id : r \in Range(Sel(cont.data, LAMBDA r : r.k = "Schema"))}
           cids == IF s.asm THEN {x.r.id : x \in Range(dc)} ELSE {r.id : r \in Range(Sel(cont.data, LAMBDA r : r.k = "Channel"))} IN
       Failed("C05", IndexExactNamesR(f, s.cfg, ds, dc))
       \cup Failed("C06", CrcNames(f, s.cfg))
       \cup Failed("C05/Content", SameContentNames(cont, fc))
       \cup (IF s.header # <<>> /\ hdr.profile = s.header[1].profile /\ hdr.library = s.header[1].library THEN {} ELSE {"C05/Content/Header"})
       \cup (IF s.cfg.skipStats THEN (IF sr = <<>> THEN {} ELSE {"C05/StatisticsPresent"})
             ELSE IF Len(sr) # 1 THEN {"C08/StatisticsRecord"}
             ELSE Failed("C08", StatsNamesR(sr[1], cont, Cardinality(KindIdx(f, "Chunk")), sids, cids)))

(* ------------------------------------------------------------------ reads *)
TokSame(t, c) ==
  CASE t.k = "Schema"  -> SameSchema(t, c)
    [] t.k = "Channel" -> SameChannel(t, c)
    [] t.k = "Message" -> SameMessage(t, c)
    [] OTHER -> FALSE

BeforeDataEnd(toks) ==
  LET d == {i \in DOMAIN toks : toks[i].k = "DataEnd"} IN
  IF d = {} THEN toks ELSE SubSeq(toks, 1, MinOf(d) - 1)

JudgeLex(s, e) ==
  IF s.phase # "closed" THEN {}
  ELSE IF e["end"] # "eof" THEN {"C01/Lex/EndsWithError"}
  ELSE LET toks == BeforeDataEnd(e.toks)
           ds == Sel(toks, LAMBDA t : t.k \in {"Schema", "Channel", "Message"})
           as == Sel(toks, LAMBDA t : t.k = "Attachment")
           ms == Sel(toks, LAMBDA t : t.k = "Metadata")
           hs == Sel(toks, LAMBDA t : t.k = "Header") IN
    (IF Len(hs) = 1 /\ e.toks[1].k = "Header" /\ s.header # <<>> /\ hs[1].profile = s.header[1].profile /\ hs[1].library = s.header[1].library
        THEN {} ELSE {"C01/Lex/Header"})
    \* C01: the messages in write order with every field equal; every schema / channel record handed to the writer comes
    \* back (as a set: where and how often definitions are placed is the writer's business, C05 judges it); and each
    \* message is preceded by the record of its channel
    \cup (LET wm == Sel(s.data, LAMBDA r : r.k = "Message")  rm == Sel(ds, LAMBDA r : r.k = "Message")
              wd == Sel(s.data, LAMBDA r : r.k # "Message")  rd == Sel(ds, LAMBDA r : r.k # "Message") IN
          IF /\ Len(rm) = Len(wm) /\ \A i \in DOMAIN wm : TokSame(rm[i], wm[i])
             /\ \A i \in DOMAIN wd : \E j \in DOMAIN rd : rd[j].k = wd[i].k /\ TokSame(rd[j], wd[i])
             /\ \A j \in DOMAIN rd : \E i \in DOMAIN wd : rd[j].k = wd[i].k /\ TokSame(rd[j], wd[i])
             /\ \A i \in DOMAIN ds : ds[i].k = "Message" => \E j \in 1 .. i - 1 : ds[j].k = "Channel" /\ ds[j].id = ds[i].ch
          THEN {} ELSE {"C01/Lex/DataStream"})
    \cup (IF Len(as) = Len(s.atts) /\ \A i \in DOMAIN as : SameAtt(as[i], s.atts[i]) /\ ~as[i].dataerr /\ as[i].crcread /\ (e.attcrc => as[i].crcmatch)
             THEN {} ELSE {"C01/Lex/Attachments"})
    \cup (IF Len(ms) = Len(s.mds) /\ \A i \in DOMAIN ms : SameMd(ms[i], s.mds[i]) THEN {} ELSE {"C01/Lex/Metadata"})

(* runs over files built by the reference encoder in an arbitrary layout (C11, C12): the logical content is the
   message sequence, the sets of schema and channel records, the attachments, the metadata and the header;
   repetition and placement of schema/channel records belong to the layout *)
IsLayoutRun(s) == "layout" \in DOMAIN s.cfg
JudgeLexLayout(s, e) ==
  IF e["end"] # "eof" THEN {"Layout/Lex/EndsWithError"}
  ELSE LET toks == BeforeDataEnd(e.toks)
           ms == Sel(toks, LAMBDA t : t.k = "Message")
           ss == Sel(toks, LAMBDA t : t.k = "Schema")
           cs == Sel(toks, LAMBDA t : t.k = "Channel")
           as == Sel(toks, LAMBDA t : t.k = "Attachment")
           mds == Sel(toks, LAMBDA t : t.k = "Metadata")
           cm == Sel(s.data, LAMBDA r : r.k = "Message")
           csch == Sel(s.data, LAMBDA r : r.k = "Schema")
           cch == Sel(s.data, LAMBDA r : r.k = "Channel") IN
    (IF e.toks # <<>> /\ e.toks[1].k = "Header" /\ e.toks[1].profile = s.header[1].profile /\ e.toks[1].library = s.header[1].library THEN {} ELSE {"Layout/Lex/Header"})
    \cup (IF Len(ms) = Len(cm) /\ \A i \in DOMAIN ms : SameMessage(ms[i], cm[i]) THEN {} ELSE {"Layout/Lex/Messages"})
    \cup (IF (\A i \in DOMAIN ss : \E j \in DOMAIN csch : SameSchema(ss[i], csch[j])) /\ (\A i \in DOMAIN cs : \E j \in DOMAIN cch : SameChannel(cs[i], cch[j]))
          THEN {} ELSE {"Layout/Lex/Definitions"})
    \cup (IF Len(as) = Len(s.atts) /\ \A i \in DOMAIN as : SameAtt(as[i], s.atts[i]) /\ ~as[i].dataerr /\ as[i].crcread /\ as[i].crcmatch THEN {} ELSE {"Layout/Lex/Attachments"})
    \cup (IF Len(mds) = Len(s.mds) /\ \A i \in DOMAIN mds : SameMd(mds[i], s.mds[i]) THEN {} ELSE {"Layout/Lex/Metadata"})

(* the channel / schema a message is bound to: the record written with that id *)
ChannelOf(s, id) == LET c == Sel(s.data, LAMBDA r : r.k = "Channel" /\ r.id = id) IN c[1]
SchemaOf(s, id)  == LET c == Sel(s.data, LAMBDA r : r.k = "Schema" /\ r.id = id) IN c[1]

TripleOK(s, x, m) ==
  /\ SameMessage(x.msg, m)
  /\ x.channel.k = "Channel" /\ SameChannel(x.channel, ChannelOf(s, m.ch))
  /\ IF ChannelOf(s, m.ch).schema = 0 THEN x.schema.k = "None"
     ELSE x.schema.k = "Schema" /\ SameSchema(x.schema, SchemaOf(s, ChannelOf(s, m.ch).schema))

JudgeScan(s, e) ==
  IF s.phase # "closed" THEN {}
  ELSE IF e["end"] # "eof" THEN {"C01/Scan/EndsWithError"}
  ELSE LET msgs == Sel(s.data, LAMBDA r : r.k = "Message")
           low  == Sel(msgs, LAMBDA m : m.log # s.tmax) IN
    (IF Len(e.msgs) = Len(msgs) /\ \A i \in DOMAIN msgs : TripleOK(s, e.msgs[i], msgs[i]) THEN {}
     ELSE IF Len(low) # Len(msgs) /\ Len(e.msgs) = Len(low) /\ \A i \in DOMAIN low : TripleOK(s, e.msgs[i], low[i])
          THEN {"C01/Scan/Messages/LogTimeMaxNotReturned"}      \* exactly the messages at 2^64-1 are missing
     ELSE {"C01/Scan/Messages"})
    \cup (IF Len(e.mds) = Len(s.mds) /\ \A i \in DOMAIN e.mds : SameMd(e.mds[i], s.mds[i]) THEN {} ELSE {"C02/Scan/MetadataCallback"})

JudgeRetain(s, e) ==
  IF s.phase # "closed" THEN {}
  ELSE (IF e.changed = 0 /\ e["end"] = "eof" THEN {} ELSE {"C01/Retain/Altered"})
       \cup (IF e.n = Len(Sel(s.data, LAMBDA r : r.k = "Message")) THEN {}
             ELSE IF e.n = Len(Sel(s.data, LAMBDA r : r.k = "Message" /\ r.log # s.tmax)) THEN {"C01/Retain/Count/LogTimeMaxNotReturned"}
             ELSE {"C01/Retain/Count"})

JudgeCall(s, e) ==
  (IF e.ret = "panic" THEN {"C14/Panic"} ELSE {})
  \cup (IF ExpectOK(e) /\ e.ret = "err" THEN {"C01/CallRejected/" \o e.op} ELSE {})
  \cup (IF ~ExpectOK(e) /\ ~Refused(e) /\ e.ret = "ok" THEN {"C14/AttachmentSourceNotReported"} ELSE {})

(* C14: a destination fault is reported by the call it hits; nothing panics; what the
   destination accepted up to that return is a prefix of the fault-free output *)
JudgeSink(e) ==
  (IF \E i \in DOMAIN e.rets : e.rets[i] = "panic" THEN {"C14/Panic"} ELSE {})
  \cup (IF ~e.fired THEN {}
        ELSE (IF e.firedCall = 0 THEN (IF e.newret = "err" THEN {} ELSE {"C14/NotReported/NewWriter"})
              ELSE IF e.firedCall <= Len(e.rets) /\ e.rets[e.firedCall] = "err" THEN {} ELSE {"C14/NotReported/Call"})
             \cup (IF e.isPrefix THEN {} ELSE {"C14/AcceptedNotPrefix"}))
JudgeAttSrc(e) == IF e.ret = "err" THEN {} ELSE IF e.ret = "panic" THEN {"C14/Panic"} ELSE {"C14/AttachmentSourceNotReported"}

(* C16: what the Python readers return for a Go-written file (streaming reader on every file; seeking reader in
   file, log-time and reverse log-time order where the summary carries the indexes it relies on) *)
SortedBy(msgs, order) == \A i \in 1 .. Len(msgs) - 1 :
   IF order = "log" THEN msgs[i].msg.log <= msgs[i + 1].msg.log ELSE msgs[i].msg.log >= msgs[i + 1].msg.log
JudgePy(s, e) ==
  IF s.phase # "closed" THEN {}
  ELSE IF e["end"] # "ok" THEN {"C16/Python/" \o e.via \o "/Error"}
  ELSE LET msgs == Sel(s.data, LAMBDA r : r.k = "Message")
           bySeq(q) == Sel(msgs, LAMBDA m : m.seq = q) IN
    (IF e.header # <<>> /\ s.header # <<>> /\ e.header[1].profile = s.header[1].profile /\ e.header[1].library = s.header[1].library THEN {} ELSE {"C16/Python/Header"})
    \cup (IF e.order = "file"
          THEN (IF Len(e.msgs) = Len(msgs) /\ \A i \in DOMAIN msgs : TripleOK(s, e.msgs[i], msgs[i]) THEN {} ELSE {"C16/Python/" \o e.via \o "/Messages"})
          ELSE (IF /\ Len(e.msgs) = Len(msgs)
                   /\ \A i \in DOMAIN e.msgs : bySeq(e.msgs[i].msg.seq) # <<>> /\ TripleOK(s, e.msgs[i], bySeq(e.msgs[i].msg.seq)[1])
                   /\ \A i, j \in DOMAIN e.msgs : e.msgs[i].msg.seq = e.msgs[j].msg.seq => i = j
                THEN {} ELSE {"C16/Python/seek/OrderedMessages"})
               \cup (IF SortedBy(e.msgs, e.order) THEN {} ELSE {"C16/Python/seek/Sorted"}))
    \cup (IF e.order # "file" \/ ~e.hasatts \/ (Len(e.atts) = Len(s.atts) /\ \A i \in DOMAIN e.atts : SameAtt(e.atts[i], s.atts[i])) THEN {} ELSE {"C16/Python/" \o e.via \o "/Attachments"})
    \cup (IF e.order # "file" \/ ~e.hasmds \/ (Len(e.mds) = Len(s.mds) /\ \A i \in DOMAIN e.mds : SameMd(e.mds[i], s.mds[i])) THEN {} ELSE {"C16/Python/" \o e.via \o "/Metadata"})
    \cup (IF e.order # "file" \/ s.cfg.skipStats THEN {}
          ELSE IF e.stats = <<>> THEN {"C16/Python/Statistics/Missing"}
          ELSE {"C16/Python/Statistics/" \o x : x \in Failed("", StatsNames(e.stats[1], Content(s), e.stats[1].chunks))})

(* C17: conformance matrix.  Pin: the reference encoder reproduces the official binary (sha256 and size of the LFS
   pointer); WriteTool: the Go write tool's output hashes to the same binary; ReadTool: the Go read tool prints the
   expected record stream (streamed) / the expected indexed result *)
JudgeConformance(e) ==
  CASE e.ev = "Pin" -> IF e.ok THEN {} ELSE {"C17/Pin/ReferenceEncoderMismatch"}
    [] e.ev = "WriteTool" -> (IF e.ran THEN {} ELSE {"C17/WriteTool/Failed"}) \cup (IF e.ran /\ ~e.hashok THEN {"C17/WriteTool/BytesDiffer"} ELSE {})
    [] e.ev = "ReadTool" -> IF e.match THEN {} ELSE {"C17/ReadTool/" \o e.mode}
    [] OTHER -> {}

(* ---------------------------------------------------------------- machine *)
Step(s, e) ==
  CASE e.ev = "Run"  -> NewRun(e)
    [] e.ev = "New"  -> IF e.ret = "ok" THEN s ELSE [s EXCEPT !.phase = "dead"]
    [] e.ev = "Call" -> ApplyCall(s, e)
    [] e.ev \in {"BagIn", "DbIn"} -> [s EXCEPT !.src = <<e>>]
    [] e.ev = "End"  -> NoRun
    [] OTHER -> s

Judge(s, e) ==
  CASE e.ev = "New"    -> IF e.ret = "ok" THEN {} ELSE {"C01/NewWriterFailed"}
    [] e.ev = "Call"   -> JudgeCall(s, e)
    [] e.ev = "File"   -> JudgeFile(s, e)
    [] e.ev = "Lex"    -> IF IsLayoutRun(s) THEN JudgeLexLayout(s, e) ELSE JudgeLex(s, e)
    [] e.ev = "Scan"   -> JudgeScan(s, e)
    [] e.ev = "Retain" -> JudgeRetain(s, e)
    [] e.ev = "LexRetain" -> IF s.phase # "closed" \/ (e.changed = 0 /\ e["end"] = "eof") THEN {} ELSE {"C01/LexRetain/Altered"}
    [] e.ev = "Sink"   -> JudgeSink(e)
    [] e.ev = "AttSrc" -> JudgeAttSrc(e)
    [] e.ev \in {"Pin", "WriteTool", "ReadTool"} -> JudgeConformance(e)
    [] e.ev = "BagOut" /\ s.src # <<>> -> Failed("C18/Bag", BagNames(s.src[1], e))
    [] e.ev = "DbOut" /\ s.src # <<>> -> Failed("C18/Db3", DbNames(s.src[1], e))
    [] e.ev = "BagCase" -> IF e.class \in {"ok", "error", "eof"} THEN {} ELSE {"C18/BagRobustness/" \o e.class \o "/" \o e.kind}
    [] e.ev = "Det" -> IF e.same THEN {} ELSE {"C13/NotDeterministic/" \o e.kind}
    [] e.ev = "Race" -> (IF e.ran THEN {} ELSE {"C13/RaceRun/Failed"})
                        \cup (IF e.ran /\ e.differing # 0 THEN {"C13/NotDeterministic/concurrent-goroutines"} ELSE {})
                        \cup (IF e.mcapRaces # 0 THEN {"C13/DataRace"} ELSE {})
    [] e.ev = "PyRead" -> JudgePy(s, e)
    [] e.ev = "PyWrite" -> IF e.ok THEN {} ELSE {"C16/PythonWriter/Failed"}
    \* C16, Python writes / Go reads: the statistics Go's Info reports describe what Python was asked to write
    [] e.ev = "Info" /\ IsLayoutRun(s) /\ "python" \in DOMAIN s.cfg /\ e.ret = "ok" /\ "stats" \in DOMAIN e ->
         Failed("Statistics", StatsNames(e.stats, Content(s), e.stats.chunks))
    [] OTHER -> {}

Init == l = 1 /\ st = NoRun /\ rej = <<>>

Next ==
  /\ l <= Len(Trace)
  /\ LET e == Trace[l]
         s2 == Step(st, e)
         why == Judge(s2, e) IN
     /\ st' = s2
     /\ rej' = IF why = {} THEN rej ELSE Append(rej, [line |-> l, id |-> s2.id, why |-> SetToSortSeq(why, LAMBDA a, b : TRUE)])
     /\ l' = l + 1

Spec == Init /\ [][Next]_vars

Report == l = Len(Trace) + 1 => PrintT(<<"REJ", ToJson(rej)>>)
AllConsumed == TLCGet("stats").diameter - 1 = Len(Trace)
==========================================================================
