SPECIFICATION RSpec
INVARIANT Conforms
CHECK_DEADLOCK FALSE
