------------------------------- MODULE Layout -------------------------------
(***************************************************************************)
(* Spec-legal layouts of one logical content (C12) and insertions of        *)
(* unknown records / padding (C11).  A layout chooses                       *)
(*   parts    how the message sequence is split: a sequence of parts, each  *)
(*            a chunk (possibly empty) with a compression, or a run of      *)
(*            messages outside chunks                                       *)
(*   defs     where schema and channel records go: up front, repeated in    *)
(*            every chunk that uses them, or both                            *)
(*   summary  a sequence of distinct summary groups (any order the          *)
(*            specification allows, any subset)                              *)
(*   msgidx, sumoffs, crc  optional parts                                   *)
(*   unknown  positions at which records with unknown opcodes are inserted  *)
(*   pad      trailing bytes appended to every extensible record            *)
(*   within   the order of the records inside every summary group: as in    *)
(*            the data section, reversed, or rotated (not prescribed)       *)
(* TLC enumerates (or samples) the layouts and exports them as JSON for the *)
(* reference encoder; it also checks, on a model of the reader's summary    *)
(* pass (as coded: single pass, topic pruning at the footer), that what the *)
(* reader extracts from the summary does not depend on the group order.     *)
(***************************************************************************)
EXTENDS Integers, Sequences, FiniteSets, SequencesExt, Functions, Json, TLC

CONSTANTS NMsgs,          \* length of the message sequence of the content
          MaxParts,       \* at most this many parts
          Mode            \* "summary": all group orders/subsets on one data layout; "data": all data layouts x 3 summaries; "unknown": insertions

Groups == {"Schema", "Channel", "Statistics", "ChunkIndex", "AttachmentIndex", "MetadataIndex"}
Comps  == {"", "zstd", "lz4"}

(* compositions of n into k non-negative parts *)
RECURSIVE Compositions(_, _)
Compositions(n, k) == IF k = 1 THEN {<<n>>} ELSE UNION {{<<a>> \o r : r \in Compositions(n - a, k - 1)} : a \in 0 .. n}

(* injective sequences over a set = ordered subsets *)
RECURSIVE Arrangements(_)
Arrangements(S) == {<<>>} \cup UNION {{<<x>> \o r : r \in Arrangements(S \ {x})} : x \in S}

(* "channels before statistics" is the only ordering rule of the specification *)
LegalSummary(s) == \A i, j \in DOMAIN s : (s[i] = "Statistics" /\ s[j] = "Channel") => j < i

CanonSummary == <<"Schema", "Channel", "Statistics", "ChunkIndex", "AttachmentIndex", "MetadataIndex">>

DataLayouts ==
  UNION {{[parts |-> [i \in 1 .. k |-> [n |-> c[i], comp |-> cm[i], chunk |-> ch[i]]], defs |-> d] :
            c \in Compositions(NMsgs, k), cm \in [1 .. k -> Comps], ch \in [1 .. k -> BOOLEAN], d \in {"upfront", "perchunk", "both"}}
         : k \in 1 .. MaxParts}

OkData(dl) ==
  /\ \A i \in DOMAIN dl.parts : (~dl.parts[i].chunk => dl.parts[i].comp = "" /\ dl.parts[i].n > 0)
  /\ (dl.defs = "perchunk" => \A i \in DOMAIN dl.parts : dl.parts[i].chunk)        \* messages outside chunks need their definitions up front

(* "For MCAPs that include Chunk Index records in the summary section, all Message records should be written into
   Chunk records": a layout that advertises an index must not leave messages outside chunks *)
AllInChunks(dl) == \A i \in DOMAIN dl.parts : dl.parts[i].chunk \/ dl.parts[i].n = 0
Indexed(l) == \E i \in DOMAIN l.summary : l.summary[i] = "ChunkIndex"

Withins == {"asc", "rev", "rot"}
OneData == [parts |-> <<[n |-> 1, comp |-> "", chunk |-> TRUE], [n |-> NMsgs - 1, comp |-> "zstd", chunk |-> TRUE]>>, defs |-> "upfront"]

Layouts ==
  CASE Mode = "summary" ->
        {[data |-> OneData, summary |-> s, msgidx |-> mi, sumoffs |-> so, crc |-> TRUE, unknown |-> {}, pad |-> 0, within |-> wi] :
           s \in {a \in Arrangements(Groups) : LegalSummary(a)}, mi \in BOOLEAN, so \in BOOLEAN, wi \in Withins}
    [] Mode = "data" ->
        {l \in {[data |-> dl, summary |-> s, msgidx |-> TRUE, sumoffs |-> TRUE, crc |-> c, unknown |-> {}, pad |-> 0, within |-> wi] :
                  dl \in {x \in DataLayouts : OkData(x)},
                  s \in {CanonSummary, <<"ChunkIndex", "Channel", "Schema">>, <<"Channel", "Statistics", "Schema">>, <<>>}, c \in BOOLEAN, wi \in {"asc", "rev"}}
           : Indexed(l) => AllInChunks(l.data)}
    [] Mode = "unknown" ->
        {[data |-> OneData, summary |-> CanonSummary, msgidx |-> TRUE, sumoffs |-> TRUE, crc |-> TRUE, unknown |-> u, pad |-> p, within |-> "asc"] :
           u \in SUBSET {"top0", "top1", "top2", "inchunk0", "inchunk1", "inchunkend", "sum0", "sum1", "sumend", "afterchunk"}, p \in {0, 3}}

(* ------------------------------------------------------------------------ *)
(* Model of the reader's summary pass (indexed_message_iterator.go            *)
(* parseSummarySection after the fix): one pass over the groups in file       *)
(* order; channels are kept when their topic is selected; chunk indexes are   *)
(* collected and pruned by topic at the footer.  Content: 2 channels, chunk   *)
(* c holds messages of channel (c mod 2).                                     *)
NumChunks(l) == Cardinality({i \in DOMAIN l.data.parts : l.data.parts[i].chunk})
ChanOfChunk(c) == c % 2

SummaryPass(l, topicSel) ==        \* topicSel: set of selected channels, {} = no filter
  LET step(acc, g) ==
        CASE g = "Channel" -> [acc EXCEPT !.channels = IF topicSel = {} THEN {0, 1} ELSE topicSel]
          [] g = "ChunkIndex" -> [acc EXCEPT !.cidx = 1 .. NumChunks(l)]
          [] g = "Statistics" -> [acc EXCEPT !.stats = TRUE]
          [] OTHER -> acc
      pass == FoldLeft(step, [channels |-> {}, cidx |-> {}, stats |-> FALSE], l.summary)
  IN [pass EXCEPT !.cidx = IF topicSel = {} THEN @
                           ELSE {c \in @ : ~l.msgidx \/ ChanOfChunk(c) \in pass.channels}]

(* the same pass as it was coded before the fix: pruning against the channels seen so far *)
SummaryPassOld(l, topicSel) ==
  LET step(acc, g) ==
        CASE g = "Channel" -> [acc EXCEPT !.channels = IF topicSel = {} THEN {0, 1} ELSE topicSel]
          [] g = "ChunkIndex" -> [acc EXCEPT !.cidx = {c \in 1 .. NumChunks(l) : ~l.msgidx \/ ChanOfChunk(c) \in acc.channels}]
          [] g = "Statistics" -> [acc EXCEPT !.stats = TRUE]
          [] OTHER -> acc
  IN FoldLeft(step, [channels |-> {}, cidx |-> {}, stats |-> FALSE], l.summary)

(* the chunk index records as the summary lists them (order `within`), and the order in which a file-order read visits
   the chunks: as coded, the collected chunk indexes are sorted by chunk offset at the footer, so the order of the records
   in the summary does not matter *)
Listed(l) == LET n == NumChunks(l) IN
  CASE l.within = "rev" -> [i \in 1 .. n |-> n + 1 - i]
    [] l.within = "rot" -> [i \in 1 .. n |-> (i % n) + 1]
    [] OTHER -> [i \in 1 .. n |-> i]
FileOrderVisit(l, topicSel) == SortSeq(SelectSeq(Listed(l), LAMBDA c : c \in SummaryPass(l, topicSel).cidx), <)
(* as it would be without that sort (what a reader that trusts the summary order does) *)
FileOrderVisitUnsorted(l, topicSel) == SelectSeq(Listed(l), LAMBDA c : c \in SummaryPass(l, topicSel).cidx)

SameGroups(a, b) == {a[i] : i \in DOMAIN a} = {b[i] : i \in DOMAIN b}

VARIABLES lay, done
vars == <<lay, done>>
Init == lay \in Layouts /\ done = FALSE
Next == ~done /\ done' = TRUE /\ UNCHANGED lay
Spec == Init /\ [][Next]_vars

(* C12 on the model: what the summary pass extracts depends on which groups are present, not on their order.
   Every arrangement is compared with the canonical arrangement of the same groups (transitivity gives the rest). *)
CanonOf(sm) == SelectSeq(CanonSummary, LAMBDA g : \E i \in DOMAIN sm : sm[i] = g)
OrderIndependent ==
  \A sel \in {{}, {0}, {1}} : SummaryPass(lay, sel) = SummaryPass([lay EXCEPT !.summary = CanonOf(lay.summary)], sel)
(* the pre-fix pass is NOT order independent: kept as a regression witness (checked to be violated by ./check C12 --selftest) *)
OldOrderIndependent ==
  \A sel \in {{}, {0}, {1}} : SummaryPassOld(lay, sel) = SummaryPassOld([lay EXCEPT !.summary = CanonOf(lay.summary)], sel)

WithinIndependent ==
  \A sel \in {{}, {0}, {1}} : FileOrderVisit(lay, sel) = FileOrderVisit([lay EXCEPT !.within = "asc"], sel)
UnsortedWithinIndependent ==      \* violated: witness that the sort is what makes the read independent of the summary's record order
  \A sel \in {{}, {0}, {1}} : FileOrderVisitUnsorted(lay, sel) = FileOrderVisitUnsorted([lay EXCEPT !.within = "asc"], sel)

Export == done => PrintT(<<"LAYOUT", ToJson(lay)>>)
==========================================================================
