------------------------------ MODULE RosConv ------------------------------
(***************************************************************************)
(* Property layer for the ROS converters (C18).                            *)
(* Bag: the flattened record sequence of a bag (connection records and     *)
(* message records, chunks expanded) determines the MCAP data stream: one  *)
(* schema per distinct (type, md5) in first-seen order; one channel record *)
(* per connection record (id = connection id, topic, header fields minus   *)
(* type and definition); one message per bag message, in bag order, with   *)
(* the same payload, a global sequence counter and log = publish = the bag *)
(* time in nanoseconds (compared as limbs: seconds split in 16-bit halves, *)
(* nanoseconds).  Db3: every row of every message-typed topic in timestamp *)
(* order with a per-topic sequence number; channel per topic; schema per   *)
(* topic.                                                                  *)
(***************************************************************************)
EXTENDS Integers, Sequences, FiniteSets, SequencesExt, TLC

RSel(s, P(_)) == SelectSeq(s, P)
RMdSet(md) == {<<md[i].k, md[i].v>> : i \in DOMAIN md}

Conns(b) == RSel(b.recs, LAMBDA r : r.k = "conn")
BMsgs(b) == RSel(b.recs, LAMBDA r : r.k = "msg")
KeyOf(c) == <<c.type, c.md5>>
FirstKeys(cs) == RSel([i \in DOMAIN cs |-> [c |-> cs[i], first |-> ~\E j \in 1 .. i - 1 : KeyOf(cs[j]) = KeyOf(cs[i])]], LAMBDA x : x.first)
SchemaIdOf(cs, key) == LET fk == FirstKeys(cs) IN CHOOSE i \in DOMAIN fk : KeyOf(fk[i].c) = key

BagNames(b, o) ==
  LET cs == Conns(b)  ms == BMsgs(b)  fk == FirstKeys(cs) IN
  << <<"Converted", o.ret = "ok">>,
     <<"Profile", o.header.profile = b.profile>>,
     <<"Schemas", Len(o.schemas) = Len(fk) /\ \A i \in DOMAIN fk :
          o.schemas[i].id = i /\ o.schemas[i].name = fk[i].c.type /\ o.schemas[i].enc = b.ros1msg /\ o.schemas[i].data = fk[i].c.def>>,
     <<"Channels", Len(o.chans) = Len(cs) /\ \A i \in DOMAIN cs :
          /\ o.chans[i].id = cs[i].c /\ o.chans[i].topic = cs[i].topic /\ o.chans[i].menc = b.ros1
          /\ o.chans[i].schema = SchemaIdOf(cs, KeyOf(cs[i])) /\ RMdSet(o.chans[i].md) = RMdSet(cs[i].md) /\ Len(o.chans[i].md) = Len(cs[i].md)>>,
     <<"Messages", Len(o.msgs) = Len(ms) /\ \A i \in DOMAIN ms :
          /\ o.msgs[i].ch = ms[i].c /\ o.msgs[i].seq = i - 1 /\ o.msgs[i].data = ms[i].data
          /\ o.msgs[i].lhi = ms[i].shi /\ o.msgs[i].llo = ms[i].slo /\ o.msgs[i].lns = ms[i].ns
          /\ o.msgs[i].phi = ms[i].shi /\ o.msgs[i].plo = ms[i].slo /\ o.msgs[i].pns = ms[i].ns>> >>

Failed2(names) == {names[i][1] : i \in {j \in DOMAIN names : ~names[j][2]}}

(* ---- db3 *)
MsgTopics(d) == LET ts == RSel(d.topics, LAMBDA t : t.ismsg) IN SortSeq(ts, LAMBDA a, b : a.id < b.id)
RowsOf(d) == RSel(d.msgs, LAMBDA m : \E i \in DOMAIN d.topics : d.topics[i].id = m.topic /\ d.topics[i].ismsg)
CountRows(rows, t, ts, data) == Cardinality({i \in DOMAIN rows : rows[i].topic = t /\ rows[i].ts = ts /\ rows[i].data = data})
CountOut(ms, t, ts, data) == Cardinality({i \in DOMAIN ms : ms[i].ch = t /\ ms[i].log = ts /\ ms[i].data = data})

DbNames(d, o) ==
  LET ts == MsgTopics(d)  rows == RowsOf(d) IN
  << <<"Converted", o.ret = "ok">>,
     <<"Profile", o.header.profile = d.profile>>,
     <<"Schemas", Len(o.schemas) = Len(ts) /\ \A i \in DOMAIN ts :
          o.schemas[i].id = i /\ o.schemas[i].name = ts[i].type /\ o.schemas[i].enc = d.ros2msg /\ o.schemas[i].data = ts[i].schema>>,
     <<"Channels", Len(o.chans) = Len(ts) /\ \A i \in DOMAIN ts :
          /\ o.chans[i].id = ts[i].id /\ o.chans[i].topic = ts[i].name /\ o.chans[i].menc = ts[i].fmt /\ o.chans[i].schema = i
          /\ RMdSet(o.chans[i].md) = (IF ts[i].hasqos THEN {<<d.qoskey, ts[i].qos>>} ELSE {})>>,
     <<"EveryMessage", Len(o.msgs) = Len(rows) /\ \A i \in DOMAIN rows :
          CountOut(o.msgs, rows[i].topic, rows[i].ts, rows[i].data) = CountRows(rows, rows[i].topic, rows[i].ts, rows[i].data)>>,
     <<"TimestampOrder", \A i \in 1 .. Len(o.msgs) - 1 : o.msgs[i].log <= o.msgs[i + 1].log>>,
     <<"PerTopicSequence", \A i \in DOMAIN o.msgs : o.msgs[i].seq = Cardinality({j \in 1 .. i - 1 : o.msgs[j].ch = o.msgs[i].ch})>>,
     <<"PublishTime", \A i \in DOMAIN o.msgs : o.msgs[i].lhi = o.msgs[i].phi /\ o.msgs[i].llo = o.msgs[i].plo /\ o.msgs[i].lns = o.msgs[i].pns>> >>
==========================================================================
