------------------------------ MODULE Ros1Msg ------------------------------
(***************************************************************************)
(* ROS 1 concatenated message definitions (go/ros/ros1msg).                *)
(* A definition is [top : Seq(Field), deps : [name -> Seq(Field)]]; a      *)
(* Field is [name, written, base, arr, size, qualified, bpkg]:             *)
(*   written   the type as written, e.g. "pkg/Foo[3]"                      *)
(*   base      the type without brackets                                   *)
(*   arr       "scalar" | "var" | "fixed",  size of a fixed array          *)
(*   qualified whether base contains a package, bpkg that package          *)
(* Property layer: Resolve gives the field tree a definition describes     *)
(* (exact, package-relative and Header lookup), or "error" for a missing    *)
(* dependency or a type defined in terms of itself.                        *)
(* Implementation layer: the resolver as a machine with an explicit stack  *)
(* (ResolverMC section), checked to terminate with a bounded stack on every *)
(* graph of a small scope, cyclic ones included.                           *)
(***************************************************************************)
EXTENDS Integers, Sequences, FiniteSets, SequencesExt, TLC

Primitives == {"bool", "int8", "uint8", "int16", "uint16", "int32", "uint32", "int64", "uint64",
               "float32", "float64", "string", "time", "duration", "char", "byte"}

(* the dependency a non-primitive field type designates: "" = none.  As coded, a qualified type that is not
   among the dependencies is NOT an error: it resolves to a record without fields ("?" below) *)
LookupKey(deps, f, pkg) ==
  IF f.base \in DOMAIN deps THEN f.base
  ELSE IF f.base = "Header" THEN (IF "std_msgs/Header" \in DOMAIN deps THEN "std_msgs/Header" ELSE "")
  ELSE IF ~f.qualified THEN (IF (pkg \o "/" \o f.base) \in DOMAIN deps THEN pkg \o "/" \o f.base ELSE "")
  ELSE "?"
NextPkg(f, pkg) == IF f.qualified THEN f.bpkg ELSE pkg

Bad == [ok |-> FALSE, tree |-> <<>>]
Good(t) == [ok |-> TRUE, tree |-> t]

RECURSIVE ResolveFields(_, _, _, _)
ResolveField(deps, f, pkg, resolving) ==
  IF f.base \in Primitives
  THEN Good(IF f.arr = "scalar" THEN [name |-> f.name, written |-> f.written, kind |-> "prim", size |-> 0, fields |-> <<>>, item |-> <<>>]
            ELSE [name |-> f.name, written |-> f.written, kind |-> "arr", size |-> f.size, fields |-> <<>>,
                  item |-> <<[base |-> f.base, rec |-> FALSE, fields |-> <<>>]>>])
  ELSE LET key == LookupKey(deps, f, pkg) IN
       IF key = "" \/ key \in resolving THEN Bad
       ELSE LET sub == IF key = "?" THEN Good(<<>>) ELSE ResolveFields(deps, deps[key], NextPkg(f, pkg), resolving \cup {key}) IN
            IF ~sub.ok THEN Bad
            ELSE Good(IF f.arr = "scalar" THEN [name |-> f.name, written |-> f.written, kind |-> "rec", size |-> 0, fields |-> sub.tree, item |-> <<>>]
                      ELSE [name |-> f.name, written |-> f.written, kind |-> "arr", size |-> f.size, fields |-> <<>>,
                            item |-> <<[base |-> f.base, rec |-> TRUE, fields |-> sub.tree]>>])
ResolveFields(deps, fields, pkg, resolving) ==
  IF fields = <<>> THEN Good(<<>>)
  ELSE LET h == ResolveField(deps, Head(fields), pkg, resolving) IN
       IF ~h.ok THEN Bad
       ELSE LET t == ResolveFields(deps, Tail(fields), pkg, resolving) IN
            IF ~t.ok THEN Bad ELSE Good(<<h.tree>> \o t.tree)

Resolve(def, pkg) == ResolveFields(def.deps, def.top, pkg, {})

(* --------------------------------------------------------------------------- *)
(* ResolverMC: the resolver with an explicit stack, over every small graph       *)
CONSTANTS MaxTopFields

TypeNames == {"a/A", "a/B", "std_msgs/Header"}
RefForms == {[base |-> "int32", qualified |-> FALSE, bpkg |-> ""],
             [base |-> "a/A", qualified |-> TRUE, bpkg |-> "a"], [base |-> "a/B", qualified |-> TRUE, bpkg |-> "a"],
             [base |-> "A", qualified |-> FALSE, bpkg |-> ""], [base |-> "B", qualified |-> FALSE, bpkg |-> ""],
             [base |-> "Header", qualified |-> FALSE, bpkg |-> ""],
             [base |-> "b/Missing", qualified |-> TRUE, bpkg |-> "b"], [base |-> "Missing", qualified |-> FALSE, bpkg |-> ""]}
FieldOf(r, n) == [name |-> "f" \o ToString(n), written |-> r.base, base |-> r.base, arr |-> "scalar", size |-> 0, qualified |-> r.qualified, bpkg |-> r.bpkg]
FieldSeqs(maxn) == UNION {{[i \in 1 .. n |-> FieldOf(rs[i], i)] : rs \in [1 .. n -> RefForms]} : n \in 0 .. maxn}
Defs == {[top |-> t, deps |-> d] : t \in FieldSeqs(MaxTopFields),
                                   d \in UNION {[S -> FieldSeqs(1)] : S \in SUBSET TypeNames}}

VARIABLES def, stack, visiting, outcome, maxDepth
mvars == <<def, stack, visiting, outcome, maxDepth>>

MInit == /\ def \in Defs
         /\ stack = <<[fields |-> def.top, pkg |-> "a", key |-> ""]>>
         /\ visiting = {} /\ outcome = "" /\ maxDepth = 1

(* one step: take the next field of the frame on top of the stack *)
MNext ==
  /\ outcome = ""
  /\ UNCHANGED def
  /\ IF stack = <<>> THEN outcome' = "ok" /\ UNCHANGED <<stack, visiting, maxDepth>>
     ELSE LET top == stack[Len(stack)] IN
          IF top.fields = <<>>
          THEN /\ stack' = SubSeq(stack, 1, Len(stack) - 1)
               /\ visiting' = visiting \ {top.key}
               /\ UNCHANGED <<outcome, maxDepth>>
          ELSE LET f == Head(top.fields)
                   rest == [stack EXCEPT ![Len(stack)].fields = Tail(top.fields)] IN
               IF f.base \in Primitives THEN stack' = rest /\ UNCHANGED <<visiting, outcome, maxDepth>>
               ELSE LET key == LookupKey(def.deps, f, top.pkg) IN
                    IF key = "" \/ key \in visiting THEN outcome' = "error" /\ UNCHANGED <<stack, visiting, maxDepth>>
                    ELSE IF key = "?" THEN stack' = rest /\ UNCHANGED <<visiting, outcome, maxDepth>>
                    ELSE /\ stack' = Append(rest, [fields |-> def.deps[key], pkg |-> NextPkg(f, top.pkg), key |-> key])
                         /\ visiting' = visiting \cup {key}
                         /\ maxDepth' = IF Len(stack) + 1 > maxDepth THEN Len(stack) + 1 ELSE maxDepth
                         /\ UNCHANGED outcome
MSpec == MInit /\ [][MNext]_mvars /\ WF_mvars(MNext)

Terminates == <>(outcome # "")
BoundedStack == maxDepth <= Cardinality(TypeNames) + 1
AgreesWithResolve == outcome # "" => ((outcome = "ok") = Resolve(def, "a").ok)
==========================================================================
