---------------------------- MODULE HostileInt ----------------------------
(***************************************************************************)
(* The consumers of Hostile.tla once more, over the integers themselves:   *)
(* a field value is any v in 0..2^64-1 (0..2^32-1 for the 32-bit fields),  *)
(* the conversions are Go's on amd64 written as arithmetic.  Checked with  *)
(* Apalache (symbolic, so for EVERY value, not for chosen magnitudes):     *)
(*   IntSafe          no row panics, hangs or asks for more than its       *)
(*                    ceiling, whatever the value and the parameters;      *)
(*   AbstractionExact on every anchored value Hostile.tla can denote       *)
(*                    (anchor + small delta) the anchored row of           *)
(*                    Hostile.tla and the integer row agree in class and   *)
(*                    requested size - so what TLC checks on magnitudes    *)
(*                    and what TraceHostile.tla recomputes per case is the *)
(*                    integer semantics, not an artefact of the anchors;   *)
(*   OldIntSafe*      (witnesses) rows as coded before the fixes do        *)
(*                    violate IntSafe.                                     *)
(***************************************************************************)
EXTENDS Hostile

P31 == 2^31
P32 == 2^32
P63 == 2^63
P64 == 2^64

VARIABLES
  \* @type: Int;
  v,
  \* @type: Str;
  anc,
  \* @type: Int;
  dl,
  \* @type: Int;
  par,
  \* @type: Int;
  par2,
  \* @type: Bool;
  seekable

\* @type: (Str) => Int;
AnchorVal(a) == CASE a = "Z" -> 0 [] a = "M31" -> P31 - 1 [] a = "M32" -> P32 - 1 [] a = "M63" -> P63 - 1 [] OTHER -> P64 - 1
\* @type: ({ a: Str, d: Int }) => Int;
Val(x) == AnchorVal(x.a) + x.d

I64(x) == IF x >= P63 THEN x - P64 ELSE x

IOk(n) == [class |-> "ok", alloc |-> n]
IErr == [class |-> "error", alloc |-> 0]
IPanic == [class |-> "panic", alloc |-> 0]
IHang == [class |-> "hang", alloc |-> 0]
IMakeSafe(n) == IF n < P31 - 1 THEN IOk(n) ELSE IErr

ILexRecordLen(x, maxRecord) == IF maxRecord > 0 /\ x > maxRecord THEN IErr ELSE IMakeSafe(x)
IAttachmentRecordLen(x) == IF x > P63 - 1 THEN IErr ELSE IOk(0)
IChunkCompressionLen(x) == IF x > MaxName THEN IErr ELSE IOk(IF (x + 8) % P32 > 32 THEN (x + 8) % P32 ELSE 0)
IChunkUncompressedSizeValidating(x, maxChunk) ==
  IF maxChunk > 0 /\ x > maxChunk THEN IErr ELSE IF x > P31 - 1 THEN IErr ELSE IMakeSafe((2 * x) % P64)
IParseChunkRecordsLen(x, avail) == IF x > avail THEN IErr ELSE IOk(0)
IAttachmentStringLen(x, avail) == IF x > avail THEN [class |-> "error", alloc |-> 2 * avail] ELSE IOk(x)
IChunkIndexChunkLen(x, fileSize, start) == IF x < 9 \/ x > fileSize - start THEN IErr ELSE IOk(x)
IIndexedBufferSize(x) == IMakeSafe(x)
IIndexedChunkDataLen(x, have) == IF x # have THEN IErr ELSE IOk(x)
ISeekOffset(x, fileSize) == IF x > P63 - 1 \/ ~(x < fileSize) THEN IErr ELSE IOk(0)

(* rows before the fixes, as integer arithmetic (witnesses) *)
\* Lexer.Next skipped an attachment by a relative seek of int64(len): a negative distance goes back over lexed bytes; landing on the
\* start of an earlier record (here: of this record, whose 9-byte prefix was consumed) means it is lexed again without end
IAttachmentRecordLenOld(x, sk) == IF sk /\ 9 + I64(x) = 0 THEN IHang ELSE IOk(0)
\* make([]byte, n) with n from the file: panics above the runtime's limit, allocates anything below it
IIndexedBufferSizeOld(x) == IF x >= P63 - 1000 THEN IPanic ELSE IOk(x)
IParseChunkRecordsLenOld(x, avail) == IF x > avail THEN IPanic ELSE IOk(0)

\* @type: (Str, Int, Int, Int) => { class: Str, alloc: Int };
IntRow(r, x, p, q) ==
  CASE r = "LexRecordLen" -> ILexRecordLen(x, 0)
    [] r = "LexRecordLenLimited" -> ILexRecordLen(x, p)
    [] r = "AttachmentRecordLen" -> IAttachmentRecordLen(x)
    [] r = "ChunkCompressionLen" -> IChunkCompressionLen(x)
    [] r = "ChunkUncompressedSizeValidating" -> IChunkUncompressedSizeValidating(x, 0)
    [] r = "ChunkUncompressedSizeLimited" -> IChunkUncompressedSizeValidating(x, p)
    [] r = "ParseChunkRecordsLen" -> IParseChunkRecordsLen(x, p)
    [] r = "AttachmentStringLen" -> IAttachmentStringLen(x, p)
    [] r = "ChunkIndexChunkLen" -> IChunkIndexChunkLen(x, p, q)
    [] r = "IndexedBufferSize" -> IIndexedBufferSize(x)
    [] r = "IndexedChunkDataLen" -> IIndexedChunkDataLen(x, p)
    [] OTHER -> ISeekOffset(x, p)

\* @type: (Str, { a: Str, d: Int }, Int, Int) => { class: Str, alloc: { a: Str, d: Int } };
AnchRow(r, m, p, q) ==
  CASE r = "LexRecordLen" -> LexRecordLen(m, 0)
    [] r = "LexRecordLenLimited" -> LexRecordLen(m, p)
    [] r = "AttachmentRecordLen" -> AttachmentRecordLen(m, TRUE)
    [] r = "ChunkCompressionLen" -> ChunkCompressionLen(m)
    [] r = "ChunkUncompressedSizeValidating" -> ChunkUncompressedSizeValidating(m, 0)
    [] r = "ChunkUncompressedSizeLimited" -> ChunkUncompressedSizeValidating(m, p)
    [] r = "ParseChunkRecordsLen" -> ParseChunkRecordsLen(m, p)
    [] r = "AttachmentStringLen" -> AttachmentStringLen(m, p)
    [] r = "ChunkIndexChunkLen" -> ChunkIndexChunkLen(m, p, q)
    [] r = "IndexedBufferSize" -> IndexedBufferSize(m)
    [] r = "IndexedChunkDataLen" -> IndexedChunkDataLen(m, p)
    [] OTHER -> SeekOffset(m, p)

U32Rows == {"ChunkCompressionLen", "AttachmentStringLen"}
Small == 4194304         \* parameters (limits, available bytes, file size) and Z-anchored deltas range up to 2^22
Delta == 1100            \* deltas around the other anchors

(* the ceiling that applies to a row *)
IntBound(r, p) == CASE r = "LexRecordLenLimited" -> p
                    [] r = "ChunkUncompressedSizeLimited" -> 2 * p
                    [] r \in {"AttachmentStringLen", "ChunkIndexChunkLen"} -> 2 * p
                    [] r = "ChunkCompressionLen" -> MaxName + 8
                    [] OTHER -> P31 - 1

HInit ==
  /\ row \in Rows
  /\ v \in 0..(P64 - 1)
  /\ (row \in U32Rows => v < P32)
  /\ anc \in {"Z", "M31", "M32", "M63", "M64"}
  /\ dl \in (-Delta)..Small
  /\ par \in 1..Small
  /\ par2 \in 0..Small
  /\ par2 < par
  /\ seekable \in BOOLEAN
HNext == UNCHANGED <<row, v, anc, dl, par, par2, seekable>>

\* @type: ({ class: Str, alloc: Int }, Int) => Bool;
ISafe(r, bound) == r.class \in {"ok", "error"} /\ r.alloc <= bound
IntSafe == ISafe(IntRow(row, v, par, par2), IntBound(row, par))

(* the anchored values Hostile.tla can denote without leaving the order its Lt assumes *)
Denotable == /\ (anc = "Z" => dl >= 0)
             /\ (anc # "Z" => dl <= Delta)
             /\ (anc = "M64" => dl <= 0)
             /\ (row \in U32Rows => anc \in {"Z", "M31", "M32"} /\ (anc = "M32" => dl <= 0))
AbstractionExact ==
  Denotable =>
    LET m == V(anc, dl)
        i == IntRow(row, Val(m), par, par2)
        h == AnchRow(row, m, par, par2)
    IN i.class = h.class /\ i.alloc = Val(h.alloc)

OldIntSafe1 == ISafe(IAttachmentRecordLenOld(v, seekable), P31 - 1)
OldIntSafe2 == ISafe(IIndexedBufferSizeOld(v), P31 - 1)
OldIntSafe3 == ISafe(IParseChunkRecordsLenOld(v, par), P31 - 1)
==========================================================================
