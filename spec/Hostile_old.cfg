SPECIFICATION Spec
INVARIANT OldNoCrashNoOverAlloc
CHECK_DEADLOCK FALSE
