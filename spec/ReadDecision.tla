---------------------------- MODULE ReadDecision ----------------------------
(***************************************************************************)
(* The decision Reader.Messages takes between the index, the scan and an    *)
(* error (reader.go Messages, mcap.go Info.CanReadMessagesUsingIndex), for   *)
(* every file the Go writer can produce: every combination of the writer     *)
(* options that shape the summary x three content shapes.  C02: the read is  *)
(* exact through the index, falls back to the scan, or fails - it never      *)
(* silently returns fewer messages; and when the summary has what index-     *)
(* based reading needs, every order is served.  The table is exported and    *)
(* replayed against the real writer and reader (prediction vs observation).  *)
(***************************************************************************)
EXTENDS Integers, Sequences, FiniteSets, TLC, Json

Flags == {"chunked", "skipChunkIdx", "skipRepChannels", "skipRepSchemas", "skipStats", "skipMsgIdx"}
Shapes == {"empty", "schemaless", "withschema"}     \* no message at all; messages on a channel without / with a schema
Modes == {"default", "idxfile", "idxlog", "scan"}

VARIABLES fs, shape, seekable, done      \* seekable: the Reader was built over an io.ReadSeeker (a file) or over a plain io.Reader (a pipe)
vars == <<fs, shape, seekable, done>>

Has(f) == f \in fs
NMsgs == IF shape = "empty" THEN 0 ELSE 2
(* what the writer puts into the summary (Writer.tla Close): the channel / schema records it was given, unless skipped;
   a chunk index per chunk of a chunked file; statistics *)
SumChannels == IF Has("skipRepChannels") THEN 0 ELSE 1           \* every shape registers one channel
SumSchemas  == IF Has("skipRepSchemas") \/ shape # "withschema" THEN 0 ELSE 1
NChunkIdx   == IF Has("chunked") /\ ~Has("skipChunkIdx") THEN 1 ELSE 0      \* the channel record alone already makes a chunk
HasStats    == ~Has("skipStats")

(* mcap.go CanReadMessagesUsingIndex, as coded *)
CanIndex == (NChunkIdx > 0 /\ SumChannels > 0) \/ (HasStats /\ NMsgs = 0)

(* the indexed iterator resolves channel and schema from the summary only *)
IndexedResult ==
  IF NChunkIdx = 0 THEN "exact"                                   \* nothing to visit, and the statistics say there is nothing
  ELSE IF NMsgs = 0 THEN "exact"
  ELSE IF shape = "withschema" /\ SumSchemas = 0 THEN "error"     \* channel with unrecognized schema
  ELSE "exact"

Outcome(mode) ==
  CASE mode = "scan" -> [class |-> "exact", via |-> "scan"]
    [] ~seekable -> [class |-> "error", via |-> "none"]            \* as coded: "indexed reader requires a seekable reader", whatever the order
    [] CanIndex -> [class |-> IndexedResult, via |-> "index"]
    [] mode = "idxlog" -> [class |-> "error", via |-> "none"]      \* no index available, only file-order reads are supported
    [] OTHER -> [class |-> "exact", via |-> "scan"]                \* fall back to the scan

(* property layer (IndexProps.Indexable for a writer-produced file): chunk indexes for every chunk, every channel and
   every schema in the summary *)
Indexable == Has("chunked") /\ ~Has("skipChunkIdx") /\ ~Has("skipRepChannels") /\ (shape = "withschema" => ~Has("skipRepSchemas"))

Init == fs \in SUBSET Flags /\ shape \in Shapes /\ seekable \in BOOLEAN /\ done = FALSE
Next == ~done /\ done' = TRUE /\ UNCHANGED <<fs, shape, seekable>>
Spec == Init /\ [][Next]_vars

(* C02 *)
NeverSilentlyFewer == \A m \in Modes : Outcome(m).class \in {"exact", "error"}
ErrorsOnlyWithoutIndex == \A m \in Modes : Outcome(m).class = "error" => (~Indexable \/ ~seekable)
IndexUsedWhenIndexable == (Indexable /\ seekable) => \A m \in Modes \ {"scan"} : Outcome(m) = [class |-> "exact", via |-> "index"]
(* the statistics shortcut never claims the index for a file that has messages *)
ShortcutSound == (NChunkIdx = 0 /\ CanIndex) => NMsgs = 0
(* C03: a request for a time order is served through the index or refused - never answered by the scan, which returns
   file order (whatever the source and the summary) *)
OrderedNeverByScan == Outcome("idxlog").via # "scan"

Export == done => PrintT(<<"DECISION", ToJson([flags |-> [f \in Flags |-> Has(f)], shape |-> shape, seekable |-> seekable,
                                               pred |-> [m \in Modes |-> Outcome(m)]])>>)
=============================================================================
