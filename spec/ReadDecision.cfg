SPECIFICATION Spec
INVARIANTS NeverSilentlyFewer ErrorsOnlyWithoutIndex IndexUsedWhenIndexable ShortcutSound OrderedNeverByScan Export
CHECK_DEADLOCK FALSE
