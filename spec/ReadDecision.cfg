SPECIFICATION Spec
INVARIANTS NeverSilentlyFewer ErrorsOnlyWithoutIndex IndexUsedWhenIndexable ShortcutSound Export
CHECK_DEADLOCK FALSE
