---------------------------- MODULE TraceHostile ----------------------------
(***************************************************************************)
(* Total acceptor for outcomes of hostile inputs run in the isolated       *)
(* worker (C10): every case must end as data or an error - no panic, no     *)
(* fatal runtime error, no overrun of the per-input deadline, no            *)
(* allocation beyond the ceiling that applies to the entry point.  For the  *)
(* structured mutations whose field is a row of Hostile.tla the model's     *)
(* verdict for that magnitude is recomputed; where the model says the value *)
(* is rejected at once, the measured allocation must stay small (drift).    *)
(***************************************************************************)
EXTENDS Hostile, Json, IOUtils, SequencesExt

Trace == ndJsonDeserialize(IOEnv.TRACE)

VARIABLES l, rej, drift
tvars == <<l, rej, drift, row>>

GiB == 1048576          \* in KiB
(* ceilings (KiB of total allocation during one call on one input):
   with the record and chunk limits configured (1 MiB each) a small multiple of the limits and of the input;
   otherwise one buffer at the documented 2 GiB ceiling plus working memory *)
AllocBoundKiB(e) == IF e.ep = "lex-limits" THEN 16384 + 64 * ((e.size \div 1024) + 1) ELSE 2 * GiB + 262144

MagVal(e) ==
  CASE e.mag = "0" -> Z(0) [] e.mag = "1" -> Z(1) [] e.mag = "8" -> Z(8) [] e.mag = "9" -> Z(9) [] e.mag = "24" -> Z(24) [] e.mag = "25" -> Z(25)
    [] e.mag = "v-1" -> Z(e.orig - 1) [] e.mag = "v+1" -> Z(e.orig + 1)
    [] e.mag = "rest-1" -> Z(e.rest - 1) [] e.mag = "rest" -> Z(e.rest) [] e.mag = "rest+1" -> Z(e.rest + 1)
    [] e.mag = "2^20+1" -> Z(1048577) [] e.mag = "2^27" -> Z(134217728)
    [] e.mag = "2^31-1" -> V("M31", 0) [] e.mag = "2^31" -> V("M31", 1)
    [] e.mag = "2^32-9" -> V("M32", -8) [] e.mag = "2^32-1" -> V("M32", 0) [] e.mag = "2^32" -> V("M32", 1)
    [] e.mag = "2^40" -> V("M32", 1000000)          \* between 2^32 and 2^63: only its position relative to the anchors matters
    [] e.mag = "2^63-1" -> V("M63", 0) [] e.mag = "2^63" -> V("M63", 1)
    [] e.mag = "2^64-9" -> V("M64", -8) [] e.mag = "2^64-1" -> V("M64", 0)
    [] OTHER -> Z(0)

Indexed(ep) == ep \in {"messages", "messages-log", "messages-rlog", "messages-mdcb"}
RowOf(e) ==
  CASE e.kind # "field" -> "none"
    [] e.fld = "compression.len" /\ e.rec = "Chunk" /\ e.ep \in {"lex", "lex-validate", "lex-invalid", "lex-limits", "messages-scan"} -> "ChunkCompressionLen"
    [] e.fld = "uncompressed_size" /\ e.rec = "Chunk" /\ e.inchunk = 0 /\ e.ep \in {"lex-validate", "lex-invalid"} -> "ChunkUncompressedSizeValidating"
    [] e.fld = "uncompressed_size" /\ e.rec = "Chunk" /\ e.inchunk = 0 /\ e.ep = "lex-limits" -> "ChunkUncompressedSizeLimited"
    [] e.fld = "uncompressed_size" /\ e.rec = "Chunk" /\ e.inchunk = 0 /\ Indexed(e.ep) -> "IndexedBufferSize"
    [] e.fld = "chunk_length" /\ e.rec = "ChunkIndex" /\ Indexed(e.ep) -> "ChunkIndexChunkLen"
    [] e.fld = "record_length" /\ e.rec = "Attachment" /\ e.ep \in {"lex", "lex-validate", "lex-invalid"} -> "AttachmentRecordLen"
    \* the configured record limit applies to every record the lexer frames, at top level and inside a chunk alike
    [] e.fld = "record_length" /\ e.rec \notin {"Attachment", "Chunk"} /\ e.ep = "lex-limits" -> "LexRecordLenLimited"
    [] OTHER -> "none"

ModelOutcome(e) ==
  LET v == MagVal(e)  r == RowOf(e) IN
  CASE r = "ChunkCompressionLen" -> ChunkCompressionLen(v)
    [] r = "ChunkUncompressedSizeValidating" -> ChunkUncompressedSizeValidating(v, 0)
    [] r = "ChunkUncompressedSizeLimited" -> ChunkUncompressedSizeValidating(v, 1048576)
    [] r = "IndexedBufferSize" -> IndexedBufferSize(v)
    [] r = "ChunkIndexChunkLen" -> ChunkIndexChunkLen(v, e.size, e.size - e.rest)
    [] r = "AttachmentRecordLen" -> AttachmentRecordLen(v, e.seek)
    [] r = "LexRecordLenLimited" -> LexRecordLen(v, 1048576)
    [] OTHER -> Ok(Z(0))

Judge(e) ==
  (IF e.class \in {"ok", "eof", "error", "unconfirmed"} THEN {} ELSE {"C10/" \o e.class \o "/" \o e.ep})
  \cup (IF e.allocKiB <= AllocBoundKiB(e) THEN {} ELSE {"C10/OverAllocation/" \o e.ep})

(* the model says "rejected at once": the real call must not have allocated more than working memory *)
Drift(e) == RowOf(e) # "none" /\ ModelOutcome(e).class = "error" /\ e.class \in {"ok", "eof", "error"} /\ e.allocKiB > 65536

TInit == l = 1 /\ rej = <<>> /\ drift = <<>> /\ row = "trace"
TNext ==
  /\ l <= Len(Trace)
  /\ LET e == Trace[l] IN
     /\ rej' = IF e.ev = "Case" /\ Judge(e) # {} THEN Append(rej, [line |-> l, id |-> "hostile", why |-> SetToSeq(Judge(e))]) ELSE rej
     /\ drift' = IF e.ev = "Case" /\ Drift(e) THEN Append(drift, l) ELSE drift
     /\ l' = l + 1 /\ UNCHANGED row
Spec2 == TInit /\ [][TNext]_tvars
Report == l = Len(Trace) + 1 => PrintT(<<"REJ", ToJson(rej)>>) /\ PrintT(<<"DRIFT", ToJson(drift)>>)
AllConsumed == TLCGet("stats").diameter - 1 = Len(Trace)
==========================================================================
