SPECIFICATION Spec
CONSTANTS MaxRecs = 4
INVARIANT Converts
PROPERTY Terminates
CHECK_DEADLOCK FALSE
