SPECIFICATION Spec
INVARIANT NoCrashNoOverAlloc
CHECK_DEADLOCK FALSE
