SPECIFICATION Spec
CONSTANTS
  NMsgs = 3
  MaxParts = 3
  Mode = "data"
INVARIANTS OrderIndependent WithinIndependent Export
CHECK_DEADLOCK FALSE
