SPECIFICATION Spec
CONSTANTS
  NMsgs = 3
  MaxParts = 3
  Mode = "data"
INVARIANTS OrderIndependent Export
CHECK_DEADLOCK FALSE
