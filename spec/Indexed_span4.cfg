\* chunk arrangements in depth: every file of <= 4 chunks x <= 2 messages over 3 times on one channel (spanning, nesting,
\* chains, chunks running backwards), unfiltered ordered reads
SPECIFICATION Spec
CONSTANTS
  NChunks = 4
  MaxMsgs = 2
  Times = {0, 1, 2}
  Orders = {"log", "rlog"}
  Wide = FALSE
  Chans <- Chans_one
  TopicSets <- TopicSets_none
  Windows <- Windows_none
INVARIANTS SelectExact OrderedRead MemBound QueueSorted
PROPERTIES YieldSafe Terminates
CHECK_DEADLOCK FALSE
