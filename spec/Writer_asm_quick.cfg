SPECIFICATION Spec
CONSTANTS
  MaxCalls = 3
  Times = {0, 1}
  SchemaIds = {1}
  ChannelIds = {0, 1}
  DataLens = {5}
  Chunkings <- Chunkings_two
  FlagSets <- Flags_asm_quick
  WithAux = FALSE
  MinCalls = 0
  WithAsm = TRUE
  WithRefusals = FALSE
  ChunkForms <- Forms_quick
  IdxModes <- Idx_quick
INVARIANTS WellFormedInv IndexExactInv ContentInv CrcInv StatsInv
PROPERTY Monotone
CHECK_DEADLOCK FALSE
