\* witness of the known finding LogTimeMaxNotReturned: violated
SPECIFICATION Spec
CONSTANTS
  MaxLen = 2
  TMAX = 3
INVARIANTS ScanExactAsStated
CHECK_DEADLOCK FALSE
