SPECIFICATION MSpec
CONSTANTS MaxTopFields = 2
INVARIANTS BoundedStack AgreesWithResolve
PROPERTY Terminates
CHECK_DEADLOCK FALSE
