------------------------------- MODULE Lexer -------------------------------
(***************************************************************************)
(* Implementation-layer model of go/mcap/lexer.go (Lexer.Next, loadChunk)   *)
(* as a byte-position-accurate framing machine.  The input is an abstract   *)
(* file F (records with their byte lengths; chunks with the lengths of      *)
(* their inner records) together with an environment:                       *)
(*   cut      the source ends after `cut` bytes              (C09)           *)
(*   faultAt  the source fails with a non-EOF error at that byte (C15)      *)
(*   damaged  index of a chunk whose stored payload was altered (C07)       *)
(* and the lexer options validate / emitInvalid / seekable.  Every          *)
(* io.ReadFull of the code is one BaseRead / ChunkRead here, with the       *)
(* code's classification of EOF, unexpected EOF and other errors (DESIGN    *)
(* appendix D).  The only nondeterminism is what a streaming decompressor   *)
(* does on a truncated / damaged payload.                                   *)
(***************************************************************************)
EXTENDS Integers, Sequences, FiniteSets, SequencesExt, TLC

Sum(s)   == FoldLeft(LAMBDA a, b : a + b, 0, s)
Min2(a, b) == IF a < b THEN a ELSE b

(* ------------------------------------------------------------ abstract files *)
R(k, len) == [k |-> k, len |-> len]
Att(namelen, dsize) == [k |-> "Attachment", fixed |-> 9 + 8 + 8 + 4 + namelen + 4 + 8, dsize |-> dsize, namelen |-> namelen, medialen |-> 0,
                        len |-> 9 + 8 + 8 + 4 + namelen + 4 + 8 + dsize + 4]
(* offsets (from the record's opcode) at which a field of the attachment's fixed part begins: a source that ends exactly
   there makes io.ReadFull return io.EOF (wrapped by the lexer's error), anywhere else io.ErrUnexpectedEOF *)
AttFieldStarts(a) == {9, 17, 25, 29 + a.namelen, 33 + a.namelen + a.medialen}
                     \cup (IF a.namelen > 0 THEN {29} ELSE {}) \cup (IF a.medialen > 0 THEN {33 + a.namelen} ELSE {})
Chunk(comp, inner) ==
  LET us == Sum([i \in DOMAIN inner |-> inner[i].len])
      cs == IF comp = "none" THEN us ELSE 17
      hd == 9 + 8 + 8 + 8 + 4 + 4 + (IF comp = "none" THEN 0 ELSE 4) + 8
  IN [k |-> "Chunk", comp |-> comp, hdr |-> hd, usize |-> us, csize |-> cs, inner |-> inner, len |-> hd + cs]

FLen(F)     == 8 + Sum([i \in DOMAIN F |-> F[i].len]) + 8
PosOf(F, i) == 8 + Sum([j \in 1 .. i - 1 |-> F[j].len])
RecAt(F, p) == IF \E i \in DOMAIN F : PosOf(F, i) = p THEN CHOOSE i \in DOMAIN F : PosOf(F, i) = p ELSE 0

Emits(k) == k \notin {"Unknown"}
T(i, j, tag) == [r |-> i, j |-> j, tag |-> tag]       \* a token: record i (inner record j, 0 = top level)
FullToks(F) ==
  LET step(acc, i) == IF F[i].k = "Chunk"
                      THEN acc \o SelectSeq([j \in DOMAIN F[i].inner |-> T(i, j, "")], LAMBDA t : Emits(F[i].inner[t.j].k))
                      ELSE IF Emits(F[i].k) THEN Append(acc, T(i, 0, "")) ELSE acc
  IN FoldLeft(step, <<>>, [i \in DOMAIN F |-> i])
TokCount(r) == IF r.k = "Chunk" THEN Cardinality({j \in DOMAIN r.inner : Emits(r.inner[j].k)}) ELSE IF Emits(r.k) THEN 1 ELSE 0
MustHave(F, cut) == Sum([i \in DOMAIN F |-> IF PosOf(F, i) + F[i].len <= cut THEN TokCount(F[i]) ELSE 0])
ToksBefore(F, i) == Sum([j \in 1 .. i - 1 |-> TokCount(F[j])])

(* ------------------------------------------------------------ environment *)
(* env = [F, cut, faultAt (-1 none), damaged (0 none), effect, validate, emitInvalid, seekable, crcStored] *)
Avail(env) == IF env.faultAt >= 0 THEN Min2(env.faultAt, env.cut) ELSE env.cut

(* io.ReadFull(base, n) at position p: bytes obtained and error class *)
BaseRead(env, p, n) ==
  LET got == IF Avail(env) - p >= n THEN n ELSE IF Avail(env) > p THEN Avail(env) - p ELSE 0 IN
  [got |-> got,
   err |-> IF got = n THEN "none"
           ELSE IF env.faultAt >= 0 /\ env.faultAt <= env.cut THEN "ioerr"      \* incl. an I/O error in place of end-of-file
           ELSE IF got = 0 THEN "eof" ELSE "ueof"]

(* ------------------------------------------------------------ lexer state *)
(* s = [pos, mode, ci, coff, climit, cerr, base (is the chunk reader the base stream?), toks, end, fired] *)
Start(env) ==
  LET m == BaseRead(env, 0, 8) IN
  [pos |-> m.got, mode |-> "top", ci |-> 0, coff |-> 0, climit |-> 0, cerr |-> "eof", base |-> FALSE,
   toks |-> <<>>, end |-> IF m.err = "none" THEN "" ELSE "error", fired |-> m.err = "ioerr"]   \* a bad leading magic is an error (ErrBadMagic)

End(s, class, fired) == [s EXCEPT !.end = class, !.fired = @ \/ fired]

(* what the code returns when a ReadFull of a record body fails *)
BodyFail(s, r) == IF r.err = "ueof" THEN End(s, "error", FALSE)          \* ErrTruncatedRecord
                  ELSE IF r.err = "eof" THEN End(s, "eof", FALSE)         \* raw io.EOF escapes
                  ELSE End(s, "error", r.err = "ioerr")

(* ---- top level ---- *)
(* outcomes of the chunk validation for a damaged / cut payload *)
ValidateOutcomes(env, i, payloadComplete) ==
  LET c == env.F[i] IN
  IF ~payloadComplete THEN (IF c.comp = "none" \/ env.faultAt >= 0 THEN {"error"} ELSE {"error", "ok"})   \* a decompressor may already hold all the data when only the tail of the frame is missing
  ELSE IF env.damaged # i THEN {"ok"}
  ELSE IF env.effect = "benign" THEN {"ok"}
  ELSE IF env.effect = "decomp" THEN {"error"}
  ELSE IF env.crcStored THEN (IF env.emitInvalid THEN {"invalid"} ELSE {"error"})
  ELSE {"ok-bad"}                                                        \* CRC field zero: validation is skipped by design

EnterChunk(env, s, i, outcome, rel, relErr) ==
  LET c == env.F[i]
      p0 == s.pos                            \* at the chunk's opcode
      h1 == BaseRead(env, p0 + 9, 32)        \* fixed fields up to the compression length
      h2 == BaseRead(env, p0 + 9 + 32, c.hdr - 9 - 32)
      pstart == p0 + c.hdr
      pavail == IF Avail(env) >= pstart + c.csize THEN c.csize ELSE IF Avail(env) > pstart THEN Avail(env) - pstart ELSE 0
      complete == pavail = c.csize
      hitFault == env.faultAt >= 0 /\ env.faultAt <= env.cut /\ env.faultAt < pstart + c.csize
  IN
  IF h1.err # "none" THEN (IF h1.err = "ueof" THEN End(s, "error", FALSE) ELSE IF h1.err = "eof" THEN End(s, "eof", FALSE) ELSE End(s, "error", TRUE))
  ELSE IF h2.err # "none" THEN End(s, "error", h2.err = "ioerr")        \* EOF kinds become ErrTruncatedRecord here
  ELSE IF env.validate THEN
       CASE outcome = "error"   -> End(s, "error", hitFault /\ ~complete)
         [] outcome = "invalid" -> [s EXCEPT !.toks = Append(@, T(i, 0, "invalid")), !.pos = pstart + c.csize,
                                             !.mode = "chunk", !.ci = i, !.coff = 0, !.climit = 0, !.cerr = relErr, !.base = FALSE]
         [] outcome \in {"ok", "ok-bad"} -> [s EXCEPT !.pos = pstart + c.csize, !.mode = "chunk", !.ci = i, !.coff = 0,
                                             !.climit = c.usize, !.cerr = "eof", !.base = FALSE]
  ELSE IF c.comp = "none"
       THEN [s EXCEPT !.pos = pstart, !.mode = "chunk", !.ci = i, !.coff = 0, !.climit = pavail,
                      !.cerr = IF complete THEN "eof" ELSE IF hitFault THEN "ioerr" ELSE "eof", !.base = TRUE]
       ELSE [s EXCEPT !.pos = pstart + pavail, !.mode = "chunk", !.ci = i, !.coff = 0,
                      !.climit = IF complete /\ env.damaged # i THEN c.usize ELSE rel,
                      !.cerr = IF complete /\ env.damaged # i THEN "eof" ELSE relErr, !.base = FALSE]

DoAttachment(env, s, i) ==
  LET a == env.F[i]
      p0 == s.pos
      fields == BaseRead(env, p0 + 9, a.fixed - 9)
      data == BaseRead(env, p0 + a.fixed, a.dsize)
      crc == BaseRead(env, p0 + a.fixed + a.dsize, 4)
      whole == BaseRead(env, p0 + 9, a.len - 9)
      inFault == env.faultAt >= 0 /\ env.faultAt <= env.cut /\ env.faultAt >= p0 + 9 /\ env.faultAt < p0 + a.len
  IN
  IF ~env.callback
  THEN IF env.seekable THEN [s EXCEPT !.pos = p0 + a.len]                  \* skipped by a relative seek: nothing is read
       ELSE IF whole.err = "none" THEN [s EXCEPT !.pos = p0 + a.len]
       ELSE End(s, IF whole.err = "ioerr" THEN "error" ELSE "eof", whole.err = "ioerr")   \* CopyN error; wraps io.EOF on a cut
  ELSE IF fields.err # "none"
       THEN IF fields.err = "ioerr" THEN End(s, "error", TRUE)
            ELSE End(s, IF (Avail(env) - p0) \in AttFieldStarts(a) THEN "eof" ELSE "error", FALSE)
  ELSE IF data.err = "none" /\ crc.err = "none"
       THEN [s EXCEPT !.toks = Append(@, T(i, 0, "")), !.pos = p0 + a.len]
       ELSE (* the callback sees a degraded attachment; reading on (or skipping the remainder) then fails *)
            [End(s, IF inFault THEN "error" ELSE "eof", inFault) EXCEPT !.toks = Append(@, T(i, 0, "degraded"))]

StepTop(env, s, outcome, rel, relErr) ==
  LET h == BaseRead(env, s.pos, 9)
      i == RecAt(env.F, s.pos) IN
  IF h.err = "eof" THEN End(s, "eof", FALSE)
  ELSE IF h.err = "ueof" THEN (IF h.got = 8 /\ s.pos = FLen(env.F) - 8 THEN End(s, "eof", FALSE) ELSE End(s, "error", FALSE))
  ELSE IF h.err = "ioerr" THEN End(s, "error", TRUE)
  ELSE IF i = 0 THEN End(s, "error", FALSE)                                \* not at a record boundary: cannot happen for written files
  ELSE LET r == env.F[i] IN
       CASE r.k = "Chunk" -> EnterChunk(env, s, i, outcome, rel, relErr)
         [] r.k = "Attachment" -> DoAttachment(env, s, i)
         [] OTHER -> LET b == BaseRead(env, s.pos + 9, r.len - 9) IN
                     IF b.err # "none" THEN BodyFail(s, b)
                     ELSE [s EXCEPT !.pos = @ + r.len, !.toks = IF Emits(r.k) THEN Append(@, T(i, 0, "")) ELSE @]

(* ---- inside a chunk ---- *)
ChunkRead(s, off, n) ==
  LET got == IF s.climit - off >= n THEN n ELSE IF s.climit > off THEN s.climit - off ELSE 0 IN
  [got |-> got, err |-> IF got = n THEN "none" ELSE IF s.cerr \in {"ioerr", "derr"} THEN s.cerr ELSE IF got = 0 /\ s.cerr = "eof" THEN "eof" ELSE "ueof"]

InnerAt(c, off) == IF \E j \in DOMAIN c.inner : Sum([x \in 1 .. j - 1 |-> c.inner[x].len]) = off
                   THEN CHOOSE j \in DOMAIN c.inner : Sum([x \in 1 .. j - 1 |-> c.inner[x].len]) = off ELSE 0

Leave(s, consumed) == [s EXCEPT !.mode = "top", !.pos = IF s.base THEN @ + consumed ELSE @]

StepChunk(env, s) ==
  LET c == env.F[s.ci]
      h == ChunkRead(s, s.coff, 9)
      bad == env.damaged = s.ci /\ env.effect = "content" IN
  IF h.err \in {"eof", "ueof"} THEN Leave(s, s.coff + h.got)                \* end of chunk (also hides a truncated chunk)
  ELSE IF h.err = "ioerr" THEN End(s, "error", TRUE)
  ELSE IF h.err = "derr" THEN End(s, "error", FALSE)                        \* a decompressor error that is not an EOF kind
  ELSE LET j == InnerAt(c, s.coff) IN
       IF j = 0 THEN End(s, "error", FALSE)
       ELSE IF c.inner[j].k = "Chunk" THEN End(s, "error", FALSE)            \* ErrNestedChunk
       ELSE LET b == ChunkRead(s, s.coff + 9, c.inner[j].len - 9) IN
            IF b.err # "none" THEN BodyFail(s, b)
            ELSE [s EXCEPT !.coff = @ + c.inner[j].len,
                           !.toks = IF Emits(c.inner[j].k) THEN Append(@, T(s.ci, j, IF bad THEN "altered" ELSE "")) ELSE @]
==========================================================================
