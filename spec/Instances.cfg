SPECIFICATION Spec
CONSTANTS
  NInst = 2
  Workloads <- TheWorkloads
INVARIANTS Independent SharedUntouched MapOrder
CHECK_DEADLOCK FALSE
