SPECIFICATION Spec
CONSTANTS
  NInst = 2
  Workloads <- TheWorkloads
INVARIANTS Independent SharedUntouched MapOrder OptionsStable
CHECK_DEADLOCK FALSE
