------------------------------ MODULE RosBagMC ------------------------------
(***************************************************************************)
(* Implementation-layer model of go/ros/bag2mcap.go (processBag +          *)
(* Bag2MCAP callbacks): records are read one at a time from the active      *)
(* reader; a chunk record switches the active reader to the chunk's         *)
(* content and the end of that content switches back; a connection record   *)
(* registers a schema for a new (type, md5) key and writes a channel; a     *)
(* message record writes a message with the global sequence counter.        *)
(* Exhaustive over every small bag: connection ids {0, 65535} with every     *)
(* (type, md5) assignment, every legal record sequence of up to MaxRecs      *)
(* records, every split of it into chunks; judged by RosConv!BagNames.       *)
(***************************************************************************)
EXTENDS RosConv

CONSTANTS MaxRecs

Ids == {0, 65535}
Types == {"A", "B"}
Md5s == {0, 1}
TimeOf(i) == IF i = 1 THEN [shi |-> 0, slo |-> 0, ns |-> 0] ELSE [shi |-> 65535, slo |-> 65535, ns |-> 999999999]

ConnRec(id, spec) == [k |-> "conn", c |-> id, topic |-> "t", type |-> spec[id][1], md5 |-> spec[id][2], def |-> <<"def", spec[id][1], spec[id][2]>>,
                      md |-> <<[k |-> "md5sum", v |-> spec[id][2]], [k |-> "topic", v |-> "t"]>>]
MsgRec(id, t, n) == [k |-> "msg", c |-> id, shi |-> t.shi, slo |-> t.slo, ns |-> t.ns, data |-> n]

Specs == [Ids -> Types \X Md5s]
(* a shape element is <<connection id, t>>: t = 0 a connection record, t = 1, 2 a message at one of two times *)
Shapes == UNION {[1 .. n -> Ids \X {0, 1, 2}] : n \in 0 .. MaxRecs}
Legal(sh) == \A i \in DOMAIN sh : sh[i][2] # 0 => \E j \in 1 .. i - 1 : sh[j][2] = 0 /\ sh[j][1] = sh[i][1]
RecsOf(sh, spec) == [i \in DOMAIN sh |-> IF sh[i][2] = 0 THEN ConnRec(sh[i][1], spec) ELSE MsgRec(sh[i][1], TimeOf(sh[i][2]), i)]
(* layouts: cut = 0 unchunked; cut = k: records 1..k in a first chunk, the rest in a second one (when non-empty) *)
Layout(recs, cut) ==
  IF cut = 0 THEN recs
  ELSE <<[k |-> "chunk", inner |-> SubSeq(recs, 1, cut)]>> \o
       (IF cut < Len(recs) THEN <<[k |-> "chunk", inner |-> SubSeq(recs, cut + 1, Len(recs))]>> ELSE <<>>)

VARIABLES bag, flat, base, chunk, inChunk, schemas, seq, out, done
vars == <<bag, flat, base, chunk, inChunk, schemas, seq, out, done>>

Init ==
  /\ \E spec \in Specs, sh \in {s \in Shapes : Legal(s)} : \E cut \in 0 .. Len(sh) :
        /\ flat = RecsOf(sh, spec)
        /\ bag = Layout(RecsOf(sh, spec), cut)
  /\ base = bag /\ chunk = <<>> /\ inChunk = FALSE
  /\ schemas = <<>> /\ seq = 0 /\ done = FALSE
  /\ out = [ret |-> "ok", header |-> [profile |-> "ros1"], schemas |-> <<>>, chans |-> <<>>, msgs |-> <<>>]

KeyIdx(key) == IF \E i \in DOMAIN schemas : schemas[i] = key THEN CHOOSE i \in DOMAIN schemas : schemas[i] = key ELSE 0

Handle(r) ==
  CASE r.k = "conn" ->
         LET key == <<r.type, r.md5>>
             known == KeyIdx(key) # 0
             sid == IF known THEN KeyIdx(key) ELSE Len(schemas) + 1 IN
         /\ schemas' = IF known THEN schemas ELSE Append(schemas, key)
         /\ out' = [out EXCEPT !.schemas = IF known THEN @ ELSE Append(@, [id |-> sid, name |-> r.type, enc |-> "ros1msg", data |-> r.def]),
                               !.chans = Append(@, [id |-> r.c, schema |-> sid, topic |-> r.topic, menc |-> "ros1", md |-> r.md])]
         /\ UNCHANGED seq
    [] r.k = "msg" ->
         /\ out' = [out EXCEPT !.msgs = Append(@, [ch |-> r.c, seq |-> seq, data |-> r.data, lhi |-> r.shi, llo |-> r.slo, lns |-> r.ns,
                                                   phi |-> r.shi, plo |-> r.slo, pns |-> r.ns])]
         /\ seq' = seq + 1 /\ UNCHANGED schemas

Next ==
  /\ ~done /\ UNCHANGED <<bag, flat>>
  /\ IF inChunk
     THEN IF chunk = <<>> THEN inChunk' = FALSE /\ UNCHANGED <<base, chunk, schemas, seq, out, done>>      \* end of the chunk's content
          ELSE Handle(Head(chunk)) /\ chunk' = Tail(chunk) /\ UNCHANGED <<base, inChunk, done>>
     ELSE IF base = <<>> THEN done' = TRUE /\ UNCHANGED <<base, chunk, inChunk, schemas, seq, out>>
          ELSE IF Head(base).k = "chunk"
               THEN chunk' = Head(base).inner /\ inChunk' = TRUE /\ base' = Tail(base) /\ UNCHANGED <<schemas, seq, out, done>>
               ELSE Handle(Head(base)) /\ base' = Tail(base) /\ UNCHANGED <<chunk, inChunk, done>>
Spec == Init /\ [][Next]_vars /\ WF_vars(Next)

TheBag == [recs |-> flat, ros1 |-> "ros1", ros1msg |-> "ros1msg", profile |-> "ros1"]
Converts == done => Failed2(BagNames(TheBag, out)) = {}
Terminates == <>done
==========================================================================
