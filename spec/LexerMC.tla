------------------------------ MODULE LexerMC ------------------------------
(***************************************************************************)
(* Exhaustive exploration of Lexer.tla: every abstract file of Files x     *)
(* every cut position (C09) / every fault position (C15) / every damaged   *)
(* chunk and damage effect (C07) x option combinations.                    *)
(***************************************************************************)
EXTENDS Lexer

CONSTANTS Mode           \* "cut" | "fault" | "flip"

H  == R("Header", 20)
S1 == R("Schema", 30)
C1 == R("Channel", 35)
M1 == R("Message", 31)
M2 == R("Message", 36)
M0 == R("Message", 9 + 22)          \* empty payload
MI == R("MessageIndex", 31)
MD == R("Metadata", 25)
U0 == R("Unknown", 9)               \* unknown record with empty body
U1 == R("Unknown", 14)
DE == R("DataEnd", 13)
ST == R("Statistics", 60)
CX == R("ChunkIndex", 86)
FT == R("Footer", 29)

Files == {
  <<H, S1, C1, M1, M2, Att(3, 10), MD, DE, ST, FT>>,
  <<H, Chunk("none", <<S1, C1, M1, M2>>), MI, Att(0, 0), Chunk("none", <<M0>>), MI, DE, CX, CX, FT>>,
  <<H, Chunk("z", <<S1, C1, M1>>), MI, Chunk("z", <<M2, M1>>), MI, MD, DE, FT>>,
  <<H, U0, Chunk("none", <<C1, U1, M1>>), U1, Att(2, 5), DE, FT>>,
  <<H, DE, FT>>
}

VARIABLES env, s
vars == <<env, s>>

Bools == {TRUE, FALSE}
ChunkIdxs(F) == {i \in DOMAIN F : F[i].k = "Chunk"}

Envs ==
  CASE Mode = "cut" ->
        {[F |-> F, cut |-> c, faultAt |-> -1, damaged |-> 0, effect |-> "none", validate |-> v, emitInvalid |-> FALSE,
          seekable |-> FALSE, callback |-> cb, crcStored |-> TRUE] : F \in Files, c \in 0 .. 400, v \in Bools, cb \in Bools}
    [] Mode = "fault" ->
        {[F |-> F, cut |-> FLen(F), faultAt |-> a, damaged |-> 0, effect |-> "none", validate |-> v, emitInvalid |-> FALSE,
          seekable |-> sk, callback |-> cb, crcStored |-> TRUE] : F \in Files, a \in 0 .. 400, v \in Bools, cb \in Bools, sk \in Bools}
    [] Mode = "flip" ->
        {[F |-> F, cut |-> FLen(F), faultAt |-> -1, damaged |-> d, effect |-> ef, validate |-> TRUE, emitInvalid |-> ei,
          seekable |-> FALSE, callback |-> TRUE, crcStored |-> TRUE] : F \in Files, d \in 1 .. 6, ef \in {"benign", "decomp", "content"}, ei \in Bools}

EnvOK(e) ==
  /\ e.cut <= FLen(e.F) /\ e.faultAt <= FLen(e.F)
  /\ (Mode = "flip" => e.damaged \in ChunkIdxs(e.F) /\ (e.F[e.damaged].comp = "none" => e.effect = "content"))

Init == env \in {e \in Envs : EnvOK(e)} /\ s = Start(env)

AtChunk == s.mode = "top" /\ RecAt(env.F, s.pos) # 0 /\ env.F[RecAt(env.F, s.pos)].k = "Chunk"

Next ==
  /\ s.end = "" /\ UNCHANGED env
  /\ IF s.mode = "chunk" THEN s' = StepChunk(env, s)
     ELSE IF ~AtChunk THEN s' = StepTop(env, s, "ok", 0, "eof")
     ELSE LET i == RecAt(env.F, s.pos)
              c == env.F[i]
              pstart == s.pos + c.hdr
              complete == Avail(env) >= pstart + c.csize IN
          \E o \in ValidateOutcomes(env, i, complete) :
          \E rel \in (IF c.comp = "none" \/ env.validate THEN {0} ELSE 0 .. c.usize) :
          \E re \in (IF c.comp = "none" THEN {"eof"}
                     ELSE IF env.faultAt >= 0 /\ ~complete THEN {"ioerr"} ELSE {"ueof", "derr"} \cup (IF o = "invalid" THEN {"eof"} ELSE {})) :
            s' = StepTop(env, s, o, rel, re)

Spec == Init /\ [][Next]_vars /\ WF_vars(Next)

Done == s.end # ""
Full == FullToks(env.F)
Plain(t) == [t EXCEPT !.tag = ""]
PlainToks == [i \in DOMAIN s.toks |-> Plain(s.toks[i])]
Degraded == {i \in DOMAIN s.toks : s.toks[i].tag = "degraded"}
NoCallbackFull == SelectSeq(Full, LAMBDA t : env.F[t.r].k # "Attachment")
Expected == IF env.callback THEN Full ELSE NoCallbackFull

(* C09 *)
PrefixRead == Done =>
  /\ IsPrefix(PlainToks, Expected)
  /\ s.end \in {"eof", "error"}
  /\ Degraded \subseteq {Len(s.toks)}
  /\ Len(s.toks) >= (IF env.callback THEN MustHave(env.F, env.cut) ELSE 0)
  /\ (env.cut = FLen(env.F) => PlainToks = Expected /\ s.end = "eof")

(* C15 *)
SourceFault == Done =>
  /\ IsPrefix(PlainToks, Expected)
  /\ (s.fired => s.end = "error")
  /\ (~s.fired => PlainToks = Expected /\ s.end = "eof")

(* C07 *)
P == ToksBefore(env.F, env.damaged)
C == TokCount(env.F[env.damaged])
Altered == {i \in DOMAIN s.toks : s.toks[i].tag = "altered"}
NoSilentCorruption == Done =>
  /\ Altered = {}
  /\ \/ s.end = "eof" /\ s.toks = Full
     \/ s.end = "error" /\ IsPrefix(s.toks, Full) /\ P <= Len(s.toks) /\ Len(s.toks) <= P + C
     \/ /\ env.emitInvalid /\ Len(s.toks) > P /\ s.toks[P + 1] = T(env.damaged, 0, "invalid")
        /\ SubSeq(s.toks, 1, P) = SubSeq(Full, 1, P)
        /\ IsPrefix(SubSeq(s.toks, P + 2, Len(s.toks)), SubSeq(Full, P + C + 1, Len(Full)))
        /\ (s.end = "eof" => Len(s.toks) = Len(Full) - C + 1)

Terminates == <>Done
(* the position never moves backwards and every step consumes input or ends *)
Progress == [][s'.end # "" \/ s'.pos > s.pos \/ s'.coff > s.coff \/ s'.mode # s.mode]_vars
==========================================================================
