SPECIFICATION Spec
CONSTANTS
  NInst = 3
  Workloads <- TheWorkloads
INVARIANTS Independent Export
CHECK_DEADLOCK FALSE
