--------------------------- MODULE MCAPFormat ---------------------------
(***************************************************************************)
(* Property layer for the MCAP container format.  Written from              *)
(* website/docs/spec/index.md and from the property statements, never from  *)
(* the Go sources.  An abstract file is                                     *)
(*   f = [lead, trail : BOOLEAN, flen, trailing : Nat, recs : Seq(Rec)]     *)
(* where a Rec has k (kind), pos, len, pad, ok and the fields of its kind;  *)
(* byte strings are [id, len] (equal bytes <=> equal id), timestamps are    *)
(* ranks (0 is 0, order preserved).  Every length, position and offset is   *)
(* recomputed here from the byte tables of the specification.               *)
(***************************************************************************)
EXTENDS Integers, Sequences, FiniteSets, SequencesExt, Functions, TLC

Sum(s)  == FoldLeft(LAMBDA a, b : a + b, 0, s)
MinOf(S) == CHOOSE x \in S : \A y \in S : x <= y
MaxOf(S) == CHOOSE x \in S : \A y \in S : x >= y
Idx(s, P(_)) == {i \in DOMAIN s : P(s[i])}
Sel(s, P(_)) == SelectSeq(s, P)

SL(b)     == 4 + b.len                                  \* String / u32-prefixed Bytes
MapL(md)  == 4 + Sum([i \in DOMAIN md |-> SL(md[i].k) + SL(md[i].v)])
MdSet(md) == {<<md[i].k, md[i].v>> : i \in DOMAIN md}

(* Appendix A of DESIGN.md: content length per opcode. *)
ContentLen(r) ==
  CASE r.k = "Header"          -> SL(r.profile) + SL(r.library)
    [] r.k = "Footer"          -> 8 + 8 + 4
    [] r.k = "Schema"          -> 2 + SL(r.name) + SL(r.enc) + SL(r.data)
    [] r.k = "Channel"         -> 2 + 2 + SL(r.topic) + SL(r.menc) + MapL(r.md)
    [] r.k = "Message"         -> 2 + 4 + 8 + 8 + r.data.len
    [] r.k = "Chunk"           -> 8 + 8 + 8 + 4 + 4 + r.complen + 8 + r.csize
    [] r.k = "MessageIndex"    -> 2 + 4 + 16 * Len(r.entries)
    [] r.k = "ChunkIndex"      -> 8 + 8 + 8 + 8 + 4 + 10 * Len(r.offs) + 8 + 4 + r.complen + 8 + 8
    [] r.k = "Attachment"      -> 8 + 8 + SL(r.name) + SL(r.media) + 8 + r.dsize + 4
    [] r.k = "AttachmentIndex" -> 8 * 5 + SL(r.name) + SL(r.media)
    [] r.k = "Statistics"      -> 8 + 2 + 4 + 4 + 4 + 4 + 8 + 8 + 4 + 10 * Len(r.per)
    [] r.k = "Metadata"        -> SL(r.name) + MapL(r.md)
    [] r.k = "MetadataIndex"   -> 8 + 8 + SL(r.name)
    [] r.k = "SummaryOffset"   -> 1 + 8 + 8
    [] r.k = "DataEnd"         -> 4
    [] OTHER                   -> r.len - 9 - r.pad

Sized(r) == r.ok /\ r.len = 9 + ContentLen(r) + r.pad

DataKinds    == {"Schema", "Channel", "Message", "Attachment", "Chunk", "MessageIndex", "Metadata", "Unknown"}
SummaryKinds == {"Schema", "Channel", "ChunkIndex", "AttachmentIndex", "MetadataIndex", "Statistics", "Unknown"}
InnerKinds   == {"Schema", "Channel", "Message", "Unknown"}
NoPadKinds   == {"Message", "Chunk", "DataEnd", "Footer"}

KindIdx(f, kind) == {i \in DOMAIN f.recs : f.recs[i].k = kind}
DataEndAt(f)     == IF KindIdx(f, "DataEnd") = {} THEN 0 ELSE MinOf(KindIdx(f, "DataEnd"))
FooterAt(f)      == Len(f.recs)
SOIdx(f)         == KindIdx(f, "SummaryOffset")
FirstSOAt(f)     == IF SOIdx(f) = {} THEN FooterAt(f) ELSE MinOf(SOIdx(f))

DataRecs(f)    == SubSeq(f.recs, 2, DataEndAt(f) - 1)
SummaryRecs(f) == SubSeq(f.recs, DataEndAt(f) + 1, FirstSOAt(f) - 1)
SORecs(f)      == SubSeq(f.recs, FirstSOAt(f), FooterAt(f) - 1)
Footer(f)      == f.recs[FooterAt(f)]
DataEnd(f)     == f.recs[DataEndAt(f)]

Contiguous(f) ==
  /\ Len(f.recs) >= 1
  /\ f.trail /\ f.trailing = 0
  /\ f.recs[1].pos = (IF f.lead THEN 8 ELSE 0)
  /\ \A i \in 1 .. Len(f.recs) - 1 : f.recs[i + 1].pos = f.recs[i].pos + f.recs[i].len
  /\ f.flen = f.recs[Len(f.recs)].pos + f.recs[Len(f.recs)].len + 8

InnerOK(c) ==
  /\ c.decomp /\ c.itrail = 0 /\ c.ulen = c.usize
  /\ \A j \in DOMAIN c.inner : Sized(c.inner[j]) /\ c.inner[j].k \in InnerKinds
  /\ (c.inner # <<>> => c.inner[1].pos = 0)
  /\ \A j \in 1 .. Len(c.inner) - 1 : c.inner[j + 1].pos = c.inner[j].pos + c.inner[j].len
  /\ c.usize = Sum([j \in DOMAIN c.inner |-> c.inner[j].len])

AllSized(f) == \A i \in DOMAIN f.recs : Sized(f.recs[i]) /\ (f.recs[i].k \in NoPadKinds => f.recs[i].pad = 0)

(* summary groups: maximal runs of equal kind *)
GroupedByKind(s) == \A i, j, k \in DOMAIN s : (i < j /\ j < k /\ s[i].k = s[k].k) => s[j].k = s[i].k

Grammar(f) ==
  LET n == Len(f.recs)  d == DataEndAt(f)  o == FirstSOAt(f) IN
  /\ n >= 3 /\ f.recs[1].k = "Header" /\ f.recs[n].k = "Footer"
  /\ Cardinality(KindIdx(f, "DataEnd")) = 1 /\ Cardinality(KindIdx(f, "Footer")) = 1
  /\ Cardinality(KindIdx(f, "Header")) = 1
  /\ \A i \in 2 .. d - 1 : f.recs[i].k \in DataKinds
  /\ \A i \in d + 1 .. o - 1 : f.recs[i].k \in SummaryKinds
  /\ \A i \in o .. n - 1 : f.recs[i].k = "SummaryOffset"
  /\ GroupedByKind(SummaryRecs(f))
  /\ \A i \in 2 .. n : f.recs[i].k = "MessageIndex" => f.recs[i - 1].k \in {"Chunk", "MessageIndex"}
  /\ Cardinality({i \in d + 1 .. o - 1 : f.recs[i].k = "Statistics"}) <= 1
  (* channels precede a statistics record that carries per-channel counts *)
  /\ \A i \in d + 1 .. o - 1 : (f.recs[i].k = "Statistics" /\ f.recs[i].per # <<>>) =>
        \A j \in d + 1 .. o - 1 : f.recs[j].k = "Channel" => j < i

(* data section with chunks expanded in place, only Schema/Channel/Message *)
Flat(f) ==
  LET step(acc, r) == IF r.k = "Chunk" THEN acc \o Sel(r.inner, LAMBDA x : x.k \in {"Schema", "Channel", "Message"})
                      ELSE IF r.k \in {"Schema", "Channel", "Message"} THEN Append(acc, r) ELSE acc
  IN FoldLeft(step, <<>>, DataRecs(f))

DefinedBeforeUse(f) ==
  LET s == Flat(f) IN
  \A i \in DOMAIN s :
    /\ s[i].k = "Message" => \E j \in 1 .. i - 1 : s[j].k = "Channel" /\ s[j].id = s[i].ch
    /\ (s[i].k = "Channel" /\ s[i].schema # 0) => \E j \in 1 .. i - 1 : s[j].k = "Schema" /\ s[j].id = s[i].schema

ChunksOK(f) == \A i \in KindIdx(f, "Chunk") : InnerOK(f.recs[i])

WellFormedNames(f) ==
  <<  <<"Contiguous", Contiguous(f)>>, <<"Sized", AllSized(f)>>, <<"Grammar", Grammar(f)>> >>

(* ---------------------------------------------------------------------- *)
(* Index exactness (C05).  Evaluated only on files that passed the above. *)

MsgsOf(c) == Sel(c.inner, LAMBDA x : x.k = "Message")

ChunkTimesExact(c) ==
  LET ts == {m.log : m \in Range(MsgsOf(c))} IN
  IF ts = {} THEN c.start = 0 /\ c.end = 0 ELSE c.start = MinOf(ts) /\ c.end = MaxOf(ts)

(* the run of MessageIndex records that immediately follows record i *)
RECURSIVE RunEnd(_, _)
RunEnd(f, i) == IF i + 1 <= Len(f.recs) /\ f.recs[i + 1].k = "MessageIndex" THEN RunEnd(f, i + 1) ELSE i
MsgIndexRun(f, i) == SubSeq(f.recs, i + 1, RunEnd(f, i))

EntriesFor(c, ch) == LET ms == Sel(c.inner, LAMBDA x : x.k = "Message" /\ x.ch = ch)
                     IN [y \in DOMAIN ms |-> [t |-> ms[y].log, off |-> ms[y].pos]]

MsgIndexExact(f, i, cfg) ==
  LET c == f.recs[i]  run == MsgIndexRun(f, i) IN
  IF cfg.skipMsgIdx THEN run = <<>>
  ELSE /\ {run[x].ch : x \in DOMAIN run} = {m.ch : m \in Range(MsgsOf(c))}
       /\ \A x, y \in DOMAIN run : run[x].ch = run[y].ch => x = y
       /\ \A x \in DOMAIN run : run[x].entries = EntriesFor(c, run[x].ch)

ChunkSeq(f)      == Sel(f.recs, LAMBDA r : r.k = "Chunk")
ChunkIdxSeq(f)   == Sel(SummaryRecs(f), LAMBDA r : r.k = "ChunkIndex")
ChunkPosSeq(f)   == LET ix == KindIdx(f, "Chunk") IN SetToSortSeq(ix, <)

(* each chunk index record designates exactly one chunk (found by its start offset), every chunk is designated exactly
   once; the order of the records in the summary is not prescribed *)
ChunkIndexExact(f, cfg) ==
  LET cps == ChunkPosSeq(f)  xs == ChunkIdxSeq(f) IN
  IF cfg.skipChunkIdx THEN xs = <<>>
  ELSE /\ Len(xs) = Len(cps)
       /\ \A n \in DOMAIN cps : Cardinality({m \in DOMAIN xs : xs[m].cstart = f.recs[cps[n]].pos}) = 1
       /\ \A m \in DOMAIN xs : \E n \in DOMAIN cps :
            LET c == f.recs[cps[n]]  x == xs[m]  run == MsgIndexRun(f, cps[n]) IN
            /\ x.cstart = c.pos /\ x.clen = c.len /\ x.start = c.start /\ x.end = c.end
            /\ x.comp = c.comp /\ x.csize = c.csize /\ x.usize = c.usize
            /\ {<<x.offs[y].ch, x.offs[y].off>> : y \in DOMAIN x.offs} = {<<run[y].ch, run[y].pos>> : y \in DOMAIN run}
            /\ Len(x.offs) = Len(run)
            /\ x.milen = Sum([y \in DOMAIN run |-> run[y].len])

AttSeq(f)    == Sel(DataRecs(f), LAMBDA r : r.k = "Attachment")
AttIdxSeq(f) == Sel(SummaryRecs(f), LAMBDA r : r.k = "AttachmentIndex")
AttIndexExact(f, cfg) ==
  LET as == AttSeq(f)  xs == AttIdxSeq(f) IN
  IF cfg.skipAttIdx THEN xs = <<>>
  ELSE /\ Len(xs) = Len(as)
       /\ \A n \in DOMAIN as : Cardinality({m \in DOMAIN xs : xs[m].offset = as[n].pos}) = 1
       /\ \A m \in DOMAIN xs : \E n \in DOMAIN as : LET a == as[n]  x == xs[m] IN
            /\ x.offset = a.pos /\ x.length = a.len /\ x.log = a.log /\ x.create = a.create
            /\ x.dsize = a.dsize /\ x.name = a.name /\ x.media = a.media

MdSeq(f)    == Sel(DataRecs(f), LAMBDA r : r.k = "Metadata")
MdIdxSeq(f) == Sel(SummaryRecs(f), LAMBDA r : r.k = "MetadataIndex")
MdIndexExact(f, cfg) ==
  LET ms == MdSeq(f)  xs == MdIdxSeq(f) IN
  IF cfg.skipMdIdx THEN xs = <<>>
  ELSE /\ Len(xs) = Len(ms)
       /\ \A n \in DOMAIN ms : Cardinality({m \in DOMAIN xs : xs[m].offset = ms[n].pos}) = 1
       /\ \A m \in DOMAIN xs : \E n \in DOMAIN ms : xs[m].offset = ms[n].pos /\ xs[m].length = ms[n].len /\ xs[m].name = ms[n].name

(* groups of the summary section: <<kind, first position, total length>> *)
RECURSIVE GroupsOf(_)
GroupsOf(s) ==
  IF s = <<>> THEN <<>>
  ELSE LET k == s[1].k
           n == IF \E i \in DOMAIN s : s[i].k # k THEN MinOf({i \in DOMAIN s : s[i].k # k}) - 1 ELSE Len(s)
       IN <<[op |-> k, gstart |-> s[1].pos, glen |-> Sum([i \in 1 .. n |-> s[i].len])]>> \o GroupsOf(SubSeq(s, n + 1, Len(s)))

SummaryOffsetsExact(f, cfg) ==
  LET so == SORecs(f)  gs == GroupsOf(SummaryRecs(f)) IN
  IF cfg.skipSumOffsets THEN so = <<>>
  ELSE /\ Len(so) = Len(gs)                  \* one record per group, designating exactly its bytes; their order is not prescribed
       /\ {[op |-> so[i].op, gstart |-> so[i].gstart, glen |-> so[i].glen] : i \in DOMAIN so} = {gs[i] : i \in DOMAIN gs}

FooterExact(f) ==
  /\ Footer(f).ss  = IF SummaryRecs(f) = <<>> THEN 0 ELSE SummaryRecs(f)[1].pos
  /\ Footer(f).sos = IF SORecs(f) = <<>> THEN 0 ELSE SORecs(f)[1].pos

SameSchema(a, b)  == a.id = b.id /\ a.name = b.name /\ a.enc = b.enc /\ a.data = b.data
SameChannel(a, b) == a.id = b.id /\ a.schema = b.schema /\ a.topic = b.topic /\ a.menc = b.menc /\ MdSet(a.md) = MdSet(b.md) /\ Len(a.md) = Len(b.md)
SameMessage(a, b) == a.ch = b.ch /\ a.seq = b.seq /\ a.log = b.log /\ a.pub = b.pub /\ a.data = b.data
SameAtt(a, b)     == a.log = b.log /\ a.create = b.create /\ a.name = b.name /\ a.media = b.media /\ a.dsize = b.dsize /\ a.data = b.data
SameMd(a, b)      == a.name = b.name /\ MdSet(a.md) = MdSet(b.md) /\ Len(a.md) = Len(b.md)
SameData(a, b) == a.k = b.k /\ CASE a.k = "Schema" -> SameSchema(a, b) [] a.k = "Channel" -> SameChannel(a, b)
                                  [] a.k = "Message" -> SameMessage(a, b) [] OTHER -> FALSE

(* first occurrence of each id, in order of first appearance *)
FirstById(s) == Sel([i \in DOMAIN s |-> [r |-> s[i], first |-> ~\E j \in 1 .. i - 1 : s[j].id = s[i].id]], LAMBDA x : x.first)

(* ds, dc: the schema / channel definitions the producer registered, each once, in order of registration *)
SummaryRepeatsOf(f, cfg, ds, dc) ==
  LET ss == Sel(SummaryRecs(f), LAMBDA r : r.k = "Schema")
      sc == Sel(SummaryRecs(f), LAMBDA r : r.k = "Channel")
  IN \* every registered definition is repeated exactly once (the order of the repeats is not prescribed)
     /\ IF cfg.skipRepSchemas THEN ss = <<>>
        ELSE Len(ss) = Len(ds) /\ \A i \in DOMAIN ds : Cardinality({j \in DOMAIN ss : SameSchema(ss[j], ds[i].r)}) = 1
     /\ IF cfg.skipRepChannels THEN sc = <<>>
        ELSE Len(sc) = Len(dc) /\ \A i \in DOMAIN dc : Cardinality({j \in DOMAIN sc : SameChannel(sc[j], dc[i].r)}) = 1
DataDefs(f, kind) == FirstById(Sel(Flat(f), LAMBDA r : r.k = kind))
SummaryRepeatsExact(f, cfg) == SummaryRepeatsOf(f, cfg, DataDefs(f, "Schema"), DataDefs(f, "Channel"))

IndexExactNamesR(f, cfg, ds, dc) ==
  << <<"ChunkTimes",     \A i \in KindIdx(f, "Chunk") : ChunkTimesExact(f.recs[i])>>,
     <<"MessageIndex",   \A i \in KindIdx(f, "Chunk") : MsgIndexExact(f, i, cfg)>>,
     <<"ChunkIndex",     ChunkIndexExact(f, cfg)>>,
     <<"AttachmentIndex", AttIndexExact(f, cfg)>>,
     <<"MetadataIndex",  MdIndexExact(f, cfg)>>,
     <<"SummaryOffsets", SummaryOffsetsExact(f, cfg)>>,
     <<"Footer",         FooterExact(f)>>,
     <<"SummaryRepeats", SummaryRepeatsOf(f, cfg, ds, dc)>>,
     <<"DefinedBeforeUse", DefinedBeforeUse(f)>> >>
IndexExactNames(f, cfg) == IndexExactNamesR(f, cfg, DataDefs(f, "Schema"), DataDefs(f, "Channel"))

(* ---------------------------------------------------------------------- *)
(* Checksums (C06): the ranges are named here; the harness hashed the range *)
(* it logs, and the logged range must be the one named here.               *)

DataCrcRange(f)    == [from |-> 0, to |-> DataEnd(f).pos]
SummaryCrcRange(f) == [from |-> IF SummaryRecs(f) # <<>> THEN SummaryRecs(f)[1].pos
                                ELSE IF SORecs(f) # <<>> THEN SORecs(f)[1].pos ELSE Footer(f).pos,
                       to   |-> Footer(f).pos + 1 + 8 + 8 + 8]
AttCrcRange(a)     == [from |-> a.pos + 9, to |-> a.pos + a.len - a.pad - 4]

CrcNames(f, cfg) ==
  LET HasD == "data" \in DOMAIN f.crc   HasS == "summary" \in DOMAIN f.crc IN
  << <<"DataRange",    HasD /\ f.crc.data.from = DataCrcRange(f).from /\ f.crc.data.to = DataCrcRange(f).to>>,
     <<"DataCrc",      HasD /\ (IF cfg.crc THEN f.crc.data.ok ELSE DataEnd(f).crcz)>>,
     <<"SummaryRange", HasS /\ f.crc.summary.from = SummaryCrcRange(f).from /\ f.crc.summary.to = SummaryCrcRange(f).to>>,
     <<"SummaryCrc",   HasS /\ (IF cfg.crc THEN f.crc.summary.ok ELSE Footer(f).crcz)>>,
     <<"ChunkCrc",     \A i \in KindIdx(f, "Chunk") : IF cfg.crc THEN f.recs[i].crcok /\ f.recs[i].ulen = f.recs[i].usize ELSE f.recs[i].crcz>>,
     <<"AttachmentCrc", \A a \in Range(AttSeq(f)) : a.crcok /\ a.crcfrom = AttCrcRange(a).from /\ a.crcto = AttCrcRange(a).to>> >>

(* ---------------------------------------------------------------------- *)
(* Logical content and statistics (C01, C08)                               *)

Lookup(per, ch) == IF \E i \in DOMAIN per : per[i].ch = ch THEN per[CHOOSE i \in DOMAIN per : per[i].ch = ch].n ELSE 0
CountCh(msgs, ch) == Cardinality({i \in DOMAIN msgs : msgs[i].ch = ch})

(* content = [data : Seq of Schema/Channel/Message, atts, mds] *)
StatsNamesR(st, content, nchunks, sids, cids) ==
  LET msgs == Sel(content.data, LAMBDA r : r.k = "Message")
      ts   == {m.log : m \in Range(msgs)} IN
  << <<"MessageCount",    st.msgs = Len(msgs)>>,
     <<"SchemaCount",     st.schemas = Cardinality(sids)>>,
     <<"ChannelCount",    st.channels = Cardinality(cids)>>,
     <<"AttachmentCount", st.atts = Len(content.atts)>>,
     <<"MetadataCount",   st.mds = Len(content.mds)>>,
     <<"ChunkCount",      st.chunks = nchunks>>,
     <<"ChannelMessageCounts", \A ch \in cids \cup {st.per[i].ch : i \in DOMAIN st.per} : Lookup(st.per, ch) = CountCh(msgs, ch)>>,
     <<"MessageStartTime", st.start = IF ts = {} THEN 0 ELSE MinOf(ts)>>,
     <<"MessageEndTime",   st.end = IF ts = {} THEN 0 ELSE MaxOf(ts)>> >>
StatsNames(st, content, nchunks) ==
  StatsNamesR(st, content, nchunks, {r.id : r \in Range(Sel(content.data, LAMBDA r : r.k = "Schema"))},
                                    {r.id : r \in Range(Sel(content.data, LAMBDA r : r.k = "Channel"))})

FileContent(f) == [data |-> Flat(f), atts |-> AttSeq(f), mds |-> MdSeq(f)]

SameContentNames(a, b) ==
  << \* the messages in order with every field; the schema / channel records as sets (their placement is judged by DefinedBeforeUse)
     <<"DataStream",  LET am == Sel(a.data, LAMBDA r : r.k = "Message")  bm == Sel(b.data, LAMBDA r : r.k = "Message")
                          ad == Sel(a.data, LAMBDA r : r.k # "Message")  bd == Sel(b.data, LAMBDA r : r.k # "Message") IN
                      /\ Len(am) = Len(bm) /\ \A i \in DOMAIN am : SameMessage(am[i], bm[i])
                      /\ \A i \in DOMAIN ad : \E j \in DOMAIN bd : SameData(ad[i], bd[j])
                      /\ \A j \in DOMAIN bd : \E i \in DOMAIN ad : SameData(ad[i], bd[j])>>,
     <<"Attachments", Len(a.atts) = Len(b.atts) /\ \A i \in DOMAIN a.atts : SameAtt(a.atts[i], b.atts[i])>>,
     <<"Metadata",    Len(a.mds) = Len(b.mds) /\ \A i \in DOMAIN a.mds : SameMd(a.mds[i], b.mds[i])>> >>

Failed(prefix, names) == {prefix \o "/" \o names[i][1] : i \in {j \in DOMAIN names : ~names[j][2]}}
==========================================================================
