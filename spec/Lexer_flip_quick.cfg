SPECIFICATION Spec
CONSTANTS Mode = "flip"
INVARIANT NoSilentCorruption
PROPERTIES Terminates Progress
CHECK_DEADLOCK FALSE
