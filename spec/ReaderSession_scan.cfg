\* witness of the known finding: ScanStable is violated (an unindexed read after any other operation on the same Reader)
SPECIFICATION Spec
CONSTANTS
  NChunks = 2
  MaxOps = 2
INVARIANTS ScanStable
CHECK_DEADLOCK FALSE
