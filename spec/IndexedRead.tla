---------------------------- MODULE IndexedRead ----------------------------
(***************************************************************************)
(* Implementation-layer model of go/mcap/indexed_message_iterator.go:       *)
(* the summary pass (time and topic pruning of chunk indexes, sort by the   *)
(* read order), loadChunk (slot choice, in-chunk walk with channel and      *)
(* window filter, stable sort / reverse of the pending message indexes,     *)
(* compaction) and NextInto (the rule that loads the next chunk before      *)
(* yielding when its time range starts before the head of the queue).       *)
(* Exhaustive over every file of a small scope x read order x topic set x   *)
(* time window; judged by the property layer IndexProps (C03, C04, C20).    *)
(***************************************************************************)
EXTENDS IndexProps

CONSTANTS NChunks, MaxMsgs, Times, Orders, Wide   \* Wide: also files whose chunk ranges are wider than their content

Chans == {0, 1}
TMAXr == MaxOf(Times) + 1                          \* no message sits at 2^64-1 in this model (the exclusive default end is a known finding)
MinOfS(S) == CHOOSE x \in S : \A y \in S : x <= y

(* ------------------------------------------------------------- files *)
MsgSeqs == UNION {[1 .. n -> Chans \X Times] : n \in 0 .. MaxMsgs}
Shapes  == UNION {[1 .. n -> MsgSeqs] : n \in 1 .. NChunks}

ChunkRange(ms, wide) ==
  IF wide THEN [start |-> 0, end |-> MaxOf(Times)]
  ELSE IF ms = <<>> THEN [start |-> 0, end |-> 0]
  ELSE [start |-> MinOfS({ms[i][2] : i \in DOMAIN ms}), end |-> MaxOf({ms[i][2] : i \in DOMAIN ms})]

RECURSIVE FlatMsgs(_, _, _)
FlatMsgs(shape, c, acc) ==
  IF c > Len(shape) THEN acc
  ELSE FlatMsgs(shape, c + 1, acc \o [p \in DOMAIN shape[c] |->
         [mid |-> Len(acc) + p, chunk |-> c, pos |-> p, ch |-> shape[c][p][1], log |-> shape[c][p][2], known |-> TRUE]])

FileOf(shape, wideSet) ==
  [msgs |-> FlatMsgs(shape, 1, <<>>),
   chans |-> <<[id |-> 0, topic |-> "a", schema |-> 0], [id |-> 1, topic |-> "b", schema |-> 0]>>,
   chunks |-> [c \in DOMAIN shape |-> ChunkRange(shape[c], c \in wideSet)],
   cidx |-> [c \in DOMAIN shape |-> [noffs |-> Cardinality({shape[c][p][1] : p \in DOMAIN shape[c]})]],
   sumChans |-> 2, sumSchemas |-> 0, nschemas |-> 0, tmax |-> TMAXr]

(* ------------------------------------------------------------- reads *)
TopicSets == {<<>>, <<"a">>, <<"b">>}        \* Chans, TopicSets and Windows are overridden in the "span" configurations
TopicSets_none == {<<>>}
Windows_none == {[hasS |-> FALSE, s |-> 0, hasE |-> FALSE, e |-> 0]}
Chans_one == {0}
Windows == {[hasS |-> FALSE, s |-> 0, hasE |-> FALSE, e |-> 0]}
           \cup {[hasS |-> TRUE, s |-> a, hasE |-> TRUE, e |-> b] : a \in Times, b \in Times \cup {TMAXr}}
ReadOf(order, topics, win) == [mode |-> "index", order |-> order, hasT |-> topics # <<>>, topics |-> topics] @@ win

VARIABLES f, rd, it
vars == <<f, rd, it>>

(* the iterator's view of the window: Reader.Messages starts from [0, 2^64-1) *)
ItStart == IF rd.hasS THEN rd.s ELSE 0
ItEnd   == IF rd.hasE THEN rd.e ELSE f.tmax
ChanSelected(ch) == ~rd.hasT \/ rd.topics = <<>> \/ \E i \in DOMAIN rd.topics : rd.topics[i] = TopicOf(f, ch)
MsgsOfChunk(c) == Sel(f.msgs, LAMBDA m : m.chunk = c)

(* ---- summary pass *)
TimeKeep(c) == (ItEnd = 0 /\ ItStart = 0) \/ (f.chunks[c].start < ItEnd /\ f.chunks[c].end >= ItStart)
(* a chunk index without message index offsets cannot be pruned by topic *)
TopicKeep(c) == ~rd.hasT \/ rd.topics = <<>> \/ f.cidx[c].noffs = 0 \/ \E i \in DOMAIN MsgsOfChunk(c) : ChanSelected(MsgsOfChunk(c)[i].ch)
Candidates == {c \in DOMAIN f.chunks : TimeKeep(c) /\ TopicKeep(c)}

Ins(sorted, x, less(_, _)) ==
  LET idx == {i \in DOMAIN sorted : less(x, sorted[i])} IN
  IF idx = {} THEN Append(sorted, x)
  ELSE LET k == MinOfS(idx) IN SubSeq(sorted, 1, k - 1) \o <<x>> \o SubSeq(sorted, k, Len(sorted))
StableSort(s, less(_, _)) == FoldLeft(LAMBDA acc, x : Ins(acc, x, less), <<>>, s)

ChunkLess(a, b) ==
  CASE rd.order = "file" -> a < b
    [] rd.order = "log"  -> f.chunks[a].start < f.chunks[b].start \/ (f.chunks[a].start = f.chunks[b].start /\ a < b)
    [] rd.order = "rlog" -> f.chunks[a].end > f.chunks[b].end \/ (f.chunks[a].end = f.chunks[b].end /\ a > b)
SortedChunks == StableSort(SetToSortSeq(Candidates, <), ChunkLess)

NewIterator == [cidx |-> SortedChunks, cur |-> 1, queue |-> <<>>, qcur |-> 1, slots |-> <<>>, yielded |-> <<>>, done |-> FALSE, loads |-> 0]

(* ---- loadChunk *)
FreeSlot(slots) == IF \E i \in DOMAIN slots : slots[i].unread = 0 THEN MinOfS({i \in DOMAIN slots : slots[i].unread = 0}) ELSE Len(slots) + 1

Rev(s) == [i \in DOMAIN s |-> s[Len(s) + 1 - i]]

(* sortingRequired as computed by the in-chunk walk: a later selected message is earlier than the running maximum *)
OutOfOrder(es) == \E i, j \in DOMAIN es : i < j /\ es[j].ts < MaxOf({es[k].ts : k \in 1 .. i})

Load(i, c) ==
  LET slot == FreeSlot(i.slots)
      ms == Sel(MsgsOfChunk(c), LAMBDA m : ChanSelected(m.ch) /\ m.log >= ItStart /\ m.log < ItEnd)
      new == [k \in DOMAIN ms |-> [ts |-> ms[k].log, mid |-> ms[k].mid, slot |-> slot]]
      empty == i.qcur > Len(i.queue)
      old == IF empty THEN <<>> ELSE SubSeq(i.queue, i.qcur, Len(i.queue))
      sortReq == ~empty \/ OutOfOrder(new)
      merged == CASE rd.order = "file" -> old \o new
                  [] rd.order = "log"  -> IF sortReq THEN StableSort(old \o new, LAMBDA a, b : a.ts < b.ts) ELSE old \o new
                  [] rd.order = "rlog" -> IF sortReq THEN StableSort(old \o Rev(new), LAMBDA a, b : a.ts > b.ts) ELSE old \o Rev(new)
      slots2 == IF slot > Len(i.slots) THEN Append(i.slots, [unread |-> Len(ms), chunk |-> c])
                ELSE [i.slots EXCEPT ![slot] = [unread |-> Len(ms), chunk |-> c]]
  IN [i EXCEPT !.queue = merged, !.qcur = 1, !.slots = slots2, !.cur = @ + 1, !.loads = @ + 1]

(* ---- NextInto: one iteration of its loop *)
QHead(i) == i.queue[i.qcur]
MustLoadFirst(i) ==
  /\ i.cur <= Len(i.cidx)
  /\ LET c == i.cidx[i.cur] IN
     \/ rd.order = "log"  /\ f.chunks[c].start < QHead(i).ts
     \/ rd.order = "rlog" /\ f.chunks[c].end > QHead(i).ts

StepIt(i) ==
  IF i.qcur > Len(i.queue)
  THEN IF i.cur > Len(i.cidx) THEN [i EXCEPT !.done = TRUE] ELSE Load(i, i.cidx[i.cur])
  ELSE IF MustLoadFirst(i) THEN Load(i, i.cidx[i.cur])
  ELSE LET h == QHead(i) IN
       [i EXCEPT !.yielded = Append(@, h.mid), !.qcur = @ + 1, !.slots[h.slot].unread = @ - 1]

(* ---------------------------------------------------------------- machine *)
WideSets(shape) == IF Wide THEN SUBSET (DOMAIN shape) ELSE {{}}
Init ==
  /\ \E shape \in Shapes : \E ws \in WideSets(shape) : f = FileOf(shape, ws)
  /\ \E o \in Orders, t \in TopicSets, w \in Windows : rd = ReadOf(o, t, w)
  /\ (rd.hasS /\ rd.hasE => rd.s <= rd.e)
  /\ it = NewIterator
Next == ~it.done /\ it' = StepIt(it) /\ UNCHANGED <<f, rd>>
Spec == Init /\ [][Next]_vars /\ WF_vars(Next)

(* ------------------------------------------------------------- properties *)
SelNow == Selected(f, rd, f.tmax, TRUE)
Live(i) == Cardinality({s \in DOMAIN i.slots : i.slots[s].unread > 0})

SelectExact   == it.done => ExactlyOnce(it.yielded, SelNow)                                   \* C04 (and exactly-once of C03)
FileOrderRead == (it.done /\ rd.order = "file") => it.yielded = Mids(SelNow)                  \* C02
OrderedRead   == (it.done /\ rd.order # "file") => Sorted(f, it.yielded, rd.order) /\ TiesInFileOrder(f, it.yielded, rd.order)   \* C03
MemBound      == Len(it.slots) <= (IF rd.order = "file" THEN 1 ELSE MaxOf({1, MaxOverlap(f)}))  \* C20
(* the pending queue is always sorted in the read order *)
QueueSorted == \A a, b \in it.qcur .. Len(it.queue) : a < b =>
                 CASE rd.order = "log" -> it.queue[a].ts <= it.queue[b].ts [] rd.order = "rlog" -> it.queue[a].ts >= it.queue[b].ts [] OTHER -> TRUE
(* key lemma: nothing is yielded while an unloaded chunk could still hold an earlier message *)
YieldSafe == [][Len(it'.yielded) > Len(it.yielded) =>
                 \A k \in it.cur .. Len(it.cidx) :
                    CASE rd.order = "log"  -> f.msgs[it'.yielded[Len(it'.yielded)]].log <= f.chunks[it.cidx[k]].start
                      [] rd.order = "rlog" -> f.msgs[it'.yielded[Len(it'.yielded)]].log >= f.chunks[it.cidx[k]].end
                      [] OTHER -> TRUE]_vars
Terminates == <>(it.done)
==========================================================================
