------------------------------ MODULE Writer ------------------------------
(***************************************************************************)
(* Implementation-layer model of go/mcap/writer.go.  Structured like the   *)
(* code: one operator per public call, the chunk buffer with its running   *)
(* offset, the per-channel message indexes, the two writers of the         *)
(* statistics time range (WriteMessage and WriteChunkWithIndexes), the     *)
(* running file position, and Close as the sequence flush / DataEnd /      *)
(* summary groups / summary offsets / footer / magic.                      *)
(*                                                                         *)
(* The writer state is one record `w`; every step is a pure operator        *)
(* w -> w so that the same operators serve (a) the exhaustive state         *)
(* machine below, checked against the property layer (MCAPFormat), and (b)  *)
(* the blocking trace acceptor TraceWriterImpl, which steps them over the   *)
(* calls recorded from the real writer.                                     *)
(***************************************************************************)
EXTENDS MCAPFormat

B(id, n) == [id |-> id, len |-> n]

(* TRUE only in the witness configuration of a repaired defect (overridden there) *)
OldChunkIndex == FALSE

WithLen(r) == [r EXCEPT !.len = 9 + ContentLen(r)]
Base(k, pos) == [k |-> k, pos |-> pos, len |-> 0, pad |-> 0, ok |-> TRUE]

MkHeader(pos, profile, library) == WithLen(Base("Header", pos) @@ [profile |-> profile, library |-> library])
MkSchema(pos, s)  == WithLen(Base("Schema", pos) @@ [id |-> s.id, name |-> s.name, enc |-> s.enc, data |-> s.data])
MkChannel(pos, c) == WithLen(Base("Channel", pos) @@ [id |-> c.id, schema |-> c.schema, topic |-> c.topic, menc |-> c.menc, md |-> c.md])
MkMessage(pos, m) == WithLen(Base("Message", pos) @@ [ch |-> m.ch, seq |-> m.seq, log |-> m.log, pub |-> m.pub, data |-> m.data])
MkMetadata(pos, m) == WithLen(Base("Metadata", pos) @@ [name |-> m.name, md |-> m.md])
MkAttachment(pos, a) ==
  LET r == WithLen(Base("Attachment", pos) @@ [log |-> a.log, create |-> a.create, name |-> a.name, media |-> a.media,
                                                dsize |-> a.dsize, data |-> a.data, crcz |-> FALSE, crcok |-> TRUE,
                                                crcfrom |-> pos + 9, crcto |-> 0])
  IN [r EXCEPT !.crcto = pos + r.len - 4]       \* the attachment CRC writer wraps everything after the 9-byte prefix
MkMsgIndex(pos, ch, entries) == WithLen(Base("MessageIndex", pos) @@ [ch |-> ch, entries |-> entries])
MkDataEnd(pos, crcz) == WithLen(Base("DataEnd", pos) @@ [crcz |-> crcz])
MkSummaryOffset(pos, g) == WithLen(Base("SummaryOffset", pos) @@ [op |-> g.op, gstart |-> g.gstart, glen |-> g.glen])
MkFooter(pos, ss, sos, crcz) == WithLen(Base("Footer", pos) @@ [ss |-> ss, sos |-> sos, crcz |-> crcz])
MkAttIndex(pos, x) == WithLen(Base("AttachmentIndex", pos) @@ x)
MkMdIndex(pos, x)  == WithLen(Base("MetadataIndex", pos) @@ x)
MkChunkIndex(pos, x) == WithLen(Base("ChunkIndex", pos) @@ x)
MkStatistics(pos, x) == WithLen(Base("Statistics", pos) @@ x)
MkChunk(pos, start, end, usize, inner, comp, complen, csize, crcz) ==
  WithLen(Base("Chunk", pos) @@ [start |-> start, end |-> end, usize |-> usize, ulen |-> usize, crcz |-> crcz, crcok |-> TRUE,
                                 comp |-> comp, complen |-> complen, csize |-> csize, decomp |-> TRUE, itrail |-> 0, inner |-> inner])

CompLen(c) == IF c = "" THEN 0 ELSE IF c = "zstd" THEN 4 ELSE 3        \* "", "zstd", "lz4", "xor"

(* ------------------------------------------------------------ the state *)
NewStats == [msgs |-> 0, schemas |-> 0, channels |-> 0, atts |-> 0, mds |-> 0, chunks |-> 0,
             start |-> 0, end |-> 0, per |-> <<>>, rangeSet |-> FALSE]

(* TMAX is the rank of 2^64-1 in the time domain of the run *)
NewWriter(cfg, tmax) ==
  [cfg |-> cfg, tmax |-> tmax, closed |-> FALSE, pos |-> IF cfg.skipMagic THEN 0 ELSE 8, out |-> <<>>,
   nw |-> IF cfg.skipMagic THEN 0 ELSE 1,                    \* Write calls made on the destination so far
   cbuf |-> <<>>, cpos |-> 0, midx |-> <<>>,                \* midx: Seq of [ch, entries], channels in first-use order of this writer
   curStart |-> tmax, curEnd |-> 0, curCount |-> 0,
   stats |-> NewStats, schemas |-> <<>>, channels |-> <<>>,
   chunkIdx |-> <<>>, attIdx |-> <<>>, mdIdx |-> <<>>,
   dataCrcTo |-> 0, sumCrcFrom |-> 0, sumCrcTo |-> 0, flen |-> 0]

(* number of Write calls on the destination for one record: prefix + body; chunks: header part + payload;
   attachments: prefix, fields, the copies of io.Copy (32 KiB buffer), CRC; the footer is written in two parts *)
SinkWrites(r) == IF r.k = "Attachment" THEN 3 + (r.dsize + 32767) \div 32768 ELSE 2
Emit(w, r)    == [w EXCEPT !.out = Append(@, r), !.pos = @ + r.len, !.nw = @ + SinkWrites(r)]
ToChunk(w, r) == [w EXCEPT !.cbuf = Append(@, r), !.cpos = @ + r.len]
InChunk(w)    == w.cfg.chunked /\ ~w.closed

HasId(s, id) == \E i \in DOMAIN s : s[i].id = id

WriteHeader(w, h) == Emit(w, MkHeader(w.pos, h.profile, h.library))

AddSchema(w, s)  == IF HasId(w.schemas, s.id) THEN w ELSE [w EXCEPT !.schemas = Append(@, s), !.stats.schemas = @ + 1]
AddChannel(w, c) == IF HasId(w.channels, c.id) THEN w ELSE [w EXCEPT !.channels = Append(@, c), !.stats.channels = @ + 1]

SchemaOK(w, s)  == s.id # 0
ChannelOK(w, c) == c.schema = 0 \/ HasId(w.schemas, c.schema)
MessageOK(w, m) == HasId(w.channels, m.ch)

WriteSchema(w, s) ==
  AddSchema(IF InChunk(w) THEN ToChunk(w, MkSchema(w.cpos, s)) ELSE Emit(w, MkSchema(w.pos, s)), s)
WriteChannel(w, c) ==
  AddChannel(IF InChunk(w) THEN ToChunk(w, MkChannel(w.cpos, c)) ELSE Emit(w, MkChannel(w.pos, c)), c)

Bump(per, ch) == IF \E i \in DOMAIN per : per[i].ch = ch
                 THEN [i \in DOMAIN per |-> IF per[i].ch = ch THEN [per[i] EXCEPT !.n = @ + 1] ELSE per[i]]
                 ELSE Append(per, [ch |-> ch, n |-> 1])
AddEntry(midx, ch, e) == IF \E i \in DOMAIN midx : midx[i].ch = ch
                         THEN [i \in DOMAIN midx |-> IF midx[i].ch = ch THEN [midx[i] EXCEPT !.entries = Append(@, e)] ELSE midx[i]]
                         ELSE Append(midx, [ch |-> ch, entries |-> <<e>>])

(* second writer of the statistics time range: WriteChunkWithIndexes (after the fix of F1/F2) *)
ChunkRange(st, cstart, cend, hasMsgs) ==
  IF ~hasMsgs THEN st
  ELSE [st EXCEPT !.start = IF ~st.rangeSet \/ cstart < @ THEN cstart ELSE @,
                  !.end = IF cend > @ THEN cend ELSE @,
                  !.rangeSet = TRUE]

(* WriteChunkWithIndexes as coded: the chunk record and the non-empty message indexes the caller handed over (none
   when message indexing is skipped), the chunk index bookkeeping, the chunk count and the second writer of the
   statistics time range.  `c` = [start, end, usize, inner, comp, csize, crcz]; `given` = Seq of [ch, entries] in the
   caller's order.  A chunk that declares an uncompressed size of zero is dropped without a trace. *)
BuildRun(given, pos0) ==
  LET RECURSIVE build(_, _, _)
      build(i, pos, acc) == IF i > Len(given) THEN acc
                            ELSE LET r == MkMsgIndex(pos, given[i].ch, given[i].entries) IN build(i + 1, pos + r.len, Append(acc, r))
  IN build(1, pos0, <<>>)

WriteChunkWithIndexes(w, c, given0) ==
  IF c.usize = 0 THEN w
  ELSE LET chunk == MkChunk(w.pos, c.start, c.end, c.usize, c.inner, c.comp, CompLen(c.comp), c.csize, c.crcz)
           given == Sel(given0, LAMBDA x : x.entries # <<>>)
           run == IF w.cfg.skipMsgIdx THEN <<>> ELSE BuildRun(given, w.pos + chunk.len)
           milen == Sum([i \in DOMAIN run |-> run[i].len])
           cix == [start |-> c.start, end |-> c.end, cstart |-> w.pos, clen |-> chunk.len,
                   offs |-> [i \in DOMAIN run |-> [ch |-> run[i].ch, off |-> run[i].pos]], milen |-> milen,
                   comp |-> c.comp, complen |-> CompLen(c.comp), csize |-> c.csize, usize |-> c.usize]
           hasMsgs == c.start # 0 \/ c.end # 0 \/ given # <<>>
       IN [w EXCEPT !.out = @ \o <<chunk>> \o run, !.pos = @ + chunk.len + milen, !.nw = @ + 2 + 2 * Len(run),
                    !.chunkIdx = Append(@, cix),
                    !.stats = [ChunkRange(@, c.start, c.end, hasMsgs) EXCEPT !.chunks = @ + 1]]

(* the message indexes flushActiveChunk hands over: none when indexing is skipped, else the non-empty ones in the
   order of channel registration *)
GivenOf(w) ==
  IF w.cfg.skipMsgIdx THEN <<>>
  ELSE LET chans == Sel(w.channels, LAMBDA c : \E i \in DOMAIN w.midx : w.midx[i].ch = c.id /\ w.midx[i].entries # <<>>)
       IN [i \in DOMAIN chans |-> [ch |-> chans[i].id, entries |-> w.midx[CHOOSE j \in DOMAIN w.midx : w.midx[j].ch = chans[i].id].entries]]

(* csize: compressed size of the chunk payload (equal to the uncompressed size without compression) *)
Flush(w, csize) ==
  IF w.cpos = 0 THEN w
  ELSE LET st0 == IF w.curCount # 0 THEN w.curStart ELSE 0
           en0 == IF w.curCount # 0 THEN w.curEnd ELSE 0
           c == [start |-> st0, end |-> en0, usize |-> w.cpos, inner |-> w.cbuf, comp |-> w.cfg.comp, csize |-> csize, crcz |-> ~w.cfg.crc]
       IN [WriteChunkWithIndexes(w, c, GivenOf(w)) EXCEPT
                    !.cbuf = <<>>, !.cpos = 0, !.midx = [i \in DOMAIN @ |-> [@[i] EXCEPT !.entries = <<>>]],
                    !.curStart = w.tmax, !.curEnd = 0, !.curCount = 0]

(* ---- the chunk a caller assembles itself (remuxing): items are Schema / Channel / Message values; the caller's
   part of the contract is modelled too: true times, exact per-channel indexes, and the message counts, which
   WriteChunkWithIndexes does not maintain *)
InnerOf(items) ==
  LET mk(pos, it) == CASE it.k = "Schema" -> MkSchema(pos, it) [] it.k = "Channel" -> MkChannel(pos, it) [] OTHER -> MkMessage(pos, it)
      step(acc, it) == LET r == mk(acc.pos, it) IN [pos |-> acc.pos + r.len, recs |-> Append(acc.recs, r)]
  IN FoldLeft(step, [pos |-> 0, recs |-> <<>>], items).recs
ExtChunk(items, comp, csize, crcz) ==
  LET inner == InnerOf(items)
      ms == Sel(inner, LAMBDA r : r.k = "Message")
      ts == {m.log : m \in Range(ms)} IN
  [start |-> IF ts = {} THEN 0 ELSE MinOf(ts), end |-> IF ts = {} THEN 0 ELSE MaxOf(ts),
   usize |-> Sum([i \in DOMAIN inner |-> inner[i].len]), inner |-> inner, comp |-> comp, csize |-> csize, crcz |-> crcz]
(* exact message indexes of an assembled chunk, channels in order of first appearance *)
ExactIdx(inner) ==
  LET ms == Sel(inner, LAMBDA r : r.k = "Message")
      firsts == Sel([i \in DOMAIN ms |-> [m |-> ms[i], first |-> ~\E j \in 1 .. i - 1 : ms[j].ch = ms[i].ch]], LAMBDA x : x.first)
  IN [i \in DOMAIN firsts |-> [ch |-> firsts[i].m.ch,
        entries |-> LET mine == Sel(ms, LAMBDA m : m.ch = firsts[i].m.ch) IN [y \in DOMAIN mine |-> [t |-> mine[y].log, off |-> mine[y].pos]]]]
CallerCounts(w, items) ==
  FoldLeft(LAMBDA acc, it : IF it.k = "Message" THEN [acc EXCEPT !.stats.msgs = @ + 1, !.stats.per = Bump(@, it.ch)] ELSE acc, w, items)

(* first writer of the time range: the tail of WriteMessage *)
MsgRange(st, t) ==
  [st EXCEPT !.end = IF t > @ THEN t ELSE @,
             !.start = IF t < @ \/ st.msgs <= 1 THEN t ELSE @,
             !.rangeSet = TRUE]

WriteMessage(w, m, csize) ==
  LET w1 == [w EXCEPT !.stats.msgs = @ + 1, !.stats.per = Bump(@, m.ch)] IN
  IF ~InChunk(w) THEN [Emit(w1, MkMessage(w1.pos, m)) EXCEPT !.stats = MsgRange(@, m.log)]
  ELSE LET r  == MkMessage(w1.cpos, m)
           w2 == [ToChunk(w1, r) EXCEPT !.midx = AddEntry(@, m.ch, [t |-> m.log, off |-> w1.cpos]),   \* offset taken before the write
                                        !.curCount = @ + 1,
                                        !.curEnd = IF m.log > @ THEN m.log ELSE @,
                                        !.curStart = IF m.log < @ THEN m.log ELSE @]
           w3 == IF w2.cpos > w2.cfg.chunkSize THEN Flush(w2, csize) ELSE w2
       IN [w3 EXCEPT !.stats = MsgRange(@, m.log)]
WillFlush(w, m) == InChunk(w) /\ w.cpos + MkMessage(0, m).len > w.cfg.chunkSize

WriteAttachment(w, a) ==
  LET r == MkAttachment(w.pos, a) IN
  [Emit(w, r) EXCEPT !.attIdx = Append(@, [offset |-> w.pos, length |-> r.len, log |-> a.log, create |-> a.create,
                                           dsize |-> a.dsize, name |-> a.name, media |-> a.media]),
                     !.stats.atts = @ + 1]
(* WriteAttachment with a data source that misbehaves (C14): as coded, the 9-byte prefix and the fields are written first,
   then the source is copied in 32 KiB pieces through the CRC writer; a failing source, or a byte count that differs from
   the declared size, ends the call with an error AFTER whatever the source delivered has reached the destination - no
   CRC, no index entry, no count.  kind: "short" (k bytes missing), "long" (k bytes too many), "fail" (error after k bytes) *)
SrcDelivered(a, kind, k) ==
  CASE kind = "short" -> IF a.dsize >= k THEN a.dsize - k ELSE 0
    [] kind = "long"  -> a.dsize + k
    [] OTHER          -> k
WriteAttachmentSrc(w, a, kind, k) ==
  LET r == MkAttachment(w.pos, a)
      d == SrcDelivered(a, kind, k)
      hdr == r.len - a.dsize - 4 IN
  [w EXCEPT !.pos = @ + hdr + d, !.nw = @ + 2 + (d + 32767) \div 32768]

WriteMetadata(w, m) ==
  LET r == MkMetadata(w.pos, m) IN
  [Emit(w, r) EXCEPT !.mdIdx = Append(@, [offset |-> w.pos, length |-> r.len, name |-> m.name]), !.stats.mds = @ + 1]

(* ---------------------------------------------------------------- Close *)
EmitAll(w, items, mk(_, _)) == FoldLeft(LAMBDA acc, it : Emit(acc, mk(acc.pos, it)), w, items)

(* one summary group; returns the writer and the offsets list extended when the group is non-empty *)
Group(ws, op, enabled, items, mk(_, _)) ==
  IF ~enabled \/ items = <<>> THEN ws
  ELSE LET w1 == EmitAll(ws.w, items, mk) IN
       [w |-> w1, offs |-> Append(ws.offs, [op |-> op, gstart |-> ws.w.pos, glen |-> w1.pos - ws.w.pos])]

StatsRecOf(w) ==
  [msgs |-> w.stats.msgs, schemas |-> w.stats.schemas, channels |-> w.stats.channels, atts |-> w.stats.atts,
   mds |-> w.stats.mds, chunks |-> w.stats.chunks, start |-> w.stats.start, end |-> w.stats.end,
   \* per-channel counts in channel registration order, only channels that have an entry
   per |-> LET cs == Sel(w.channels, LAMBDA c : \E i \in DOMAIN w.stats.per : w.stats.per[i].ch = c.id)
           IN [i \in DOMAIN cs |-> [ch |-> cs[i].id, n |-> Lookup(w.stats.per, cs[i].id)]]]

(* chunk index records list their offsets in channel registration order *)
CixRec(w, x) ==
  LET cs == Sel(w.channels, LAMBDA c : \E i \in DOMAIN x.offs : x.offs[i].ch = c.id)
      offOf(ch) == x.offs[CHOOSE j \in DOMAIN x.offs : x.offs[j].ch = ch].off
      \* offsets of channels the writer was never told about (possible only for chunks the caller assembled): after the
      \* registered ones, in ascending channel id order (fix of the defect below)
      rest == SetToSortSeq({x.offs[i].ch : i \in DOMAIN x.offs} \ {w.channels[i].id : i \in DOMAIN w.channels}, <)
  IN [x EXCEPT !.offs = [i \in DOMAIN cs |-> [ch |-> cs[i].id, off |-> offOf(cs[i].id)]] \o [i \in DOMAIN rest |-> [ch |-> rest[i], off |-> offOf(rest[i])]]]
MkChunkIndexW(w, pos, x) == MkChunkIndex(pos, CixRec(w, x))
(* as coded before the fix, the record declared room for every offset of the chunk index but wrote only those of
   registered channels: with an offset of an unregistered channel the record was malformed (witness: Writer_asm_old.cfg) *)
CixAllRegistered(w, x) == \A i \in DOMAIN x.offs : HasId(w.channels, x.offs[i].ch)
CixRecOld(w, x) == [x EXCEPT !.offs = LET cs == Sel(w.channels, LAMBDA c : \E i \in DOMAIN x.offs : x.offs[i].ch = c.id)
                                      IN [i \in DOMAIN cs |-> [ch |-> cs[i].id, off |-> x.offs[CHOOSE j \in DOMAIN x.offs : x.offs[j].ch = cs[i].id].off]]]
MkChunkIndexWOld(w, pos, x) == [MkChunkIndex(pos, CixRecOld(w, x)) EXCEPT !.ok = CixAllRegistered(w, x)]

Close(w, csize) ==
  LET w0 == IF w.cfg.chunked THEN Flush(w, csize) ELSE w
      w1 == Emit([w0 EXCEPT !.closed = TRUE, !.dataCrcTo = w0.pos], MkDataEnd(w0.pos, ~w0.cfg.crc))
      w2 == [w1 EXCEPT !.sumCrcFrom = w1.pos]                                   \* CRC reset after DataEnd
      sumStart == w2.pos
      g1 == Group([w |-> w2, offs |-> <<>>], "Schema", ~w.cfg.skipRepSchemas, w2.schemas, MkSchema)
      g2 == Group(g1, "Channel", ~w.cfg.skipRepChannels, g1.w.channels, MkChannel)
      g3 == Group(g2, "Statistics", ~w.cfg.skipStats, <<StatsRecOf(g2.w)>>, MkStatistics)
      g4 == Group(g3, "ChunkIndex", ~w.cfg.skipChunkIdx, g3.w.chunkIdx, LAMBDA pos, x : IF OldChunkIndex THEN MkChunkIndexWOld(g3.w, pos, x) ELSE MkChunkIndexW(g3.w, pos, x))
      g5 == Group(g4, "AttachmentIndex", ~w.cfg.skipAttIdx, g4.w.attIdx, MkAttIndex)
      g6 == Group(g5, "MetadataIndex", ~w.cfg.skipMdIdx, g5.w.mdIdx, MkMdIndex)
      ss == IF g6.offs = <<>> THEN 0 ELSE sumStart
      sos == IF ~w.cfg.skipSumOffsets /\ g6.offs # <<>> THEN g6.w.pos ELSE 0
      w7 == IF w.cfg.skipSumOffsets THEN g6.w ELSE EmitAll(g6.w, g6.offs, MkSummaryOffset)
      w8 == [Emit(w7, MkFooter(w7.pos, ss, sos, ~w.cfg.crc)) EXCEPT !.sumCrcTo = w7.pos + 1 + 8 + 8 + 8]
  IN [w8 EXCEPT !.pos = @ + 8, !.flen = w8.pos + 8, !.nw = @ + 1]

FileOf(w) ==
  [lead |-> ~w.cfg.skipMagic, trail |-> TRUE, trailing |-> 0, flen |-> w.flen, recs |-> w.out,
   crc |-> [data |-> [from |-> 0, to |-> w.dataCrcTo, ok |-> TRUE], summary |-> [from |-> w.sumCrcFrom, to |-> w.sumCrcTo, ok |-> TRUE]]]

(* projection compared with the real writer's public state after every call *)
Proj(w) == [off |-> w.pos, msgs |-> w.stats.msgs, schemas |-> w.stats.schemas, channels |-> w.stats.channels,
            atts |-> w.stats.atts, mds |-> w.stats.mds, chunks |-> w.stats.chunks, start |-> w.stats.start, end |-> w.stats.end,
            nci |-> Len(w.chunkIdx), nai |-> Len(w.attIdx), nmi |-> Len(w.mdIdx), nw |-> w.nw]
==========================================================================
