SPECIFICATION Spec
CONSTANTS Mode = "cut"
INVARIANT PrefixRead
PROPERTIES Terminates Progress
CHECK_DEADLOCK FALSE
