SPECIFICATION Spec
CONSTANTS
  NChunks = 3
  MaxOps = 4
INVARIANTS Export
CHECK_DEADLOCK FALSE
