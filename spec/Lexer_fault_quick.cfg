SPECIFICATION Spec
CONSTANTS Mode = "fault"
INVARIANT SourceFault
PROPERTIES Terminates Progress
CHECK_DEADLOCK FALSE
