----------------------------- MODULE TraceRead -----------------------------
(***************************************************************************)
(* Total acceptor for reads of written files by the real lexer and         *)
(* iterators under truncation (Cut, C09), fragmentation and injected I/O   *)
(* errors (Frag, Fault, C15) and bit flips (Flip, C07).                    *)
(***************************************************************************)
EXTENDS ReadProps, Json, IOUtils

Trace == ndJsonDeserialize(IOEnv.TRACE)

VARIABLES l, st, rej
vars == <<l, st, rej>>

NoRun == [id |-> "", f |-> <<>>, fulls |-> <<>>, tmax |-> 0]

FullOf(s, via, validate) ==
  LET x == Sel(s.fulls, LAMBDA u : u.via = via /\ u.validate = validate) IN x[1]
HasFull(s, via, validate) == \E i \in DOMAIN s.fulls : s.fulls[i].via = via /\ s.fulls[i].validate = validate

ViaClass(via) == IF via = "lex" THEN "lex" ELSE "msg"

JudgeFull(s, e) ==
  IF s.f = <<>> THEN {}
  ELSE (IF e["end"] = "eof" \/ e.via \notin {"lex", "scan"} THEN {} ELSE {"C01/FullRead/Ending"})
       \cup (IF e.via \in {"lex", "scan"} /\ e.n # NumToks(s.f, ViaClass(e.via)) THEN {"C01/FullRead/Count"} ELSE {})

Judge(s, e) ==
  CASE e.ev = "Full" -> JudgeFull(s, e)
    [] e.ev = "Cut"  /\ HasFull(s, e.via, e.validate) -> Failed("C09", PrefixReadNames(e, s.f, FullOf(s, e.via, e.validate).n, s.tmax))
    [] e.ev = "Frag" /\ HasFull(s, e.via, e.validate) -> Failed("C15/Fragmented", FragmentedNames(e, FullOf(s, e.via, e.validate)))
    [] e.ev = "Fault" /\ HasFull(s, e.via, e.validate) -> Failed("C15/SourceFault", SourceFaultNames(e, FullOf(s, e.via, e.validate)))
    [] e.ev = "Flip" /\ HasFull(s, "lex", TRUE) ->
         LET fulln == FullOf(s, "lex", TRUE).n
             P == ToksBefore(s.f, "lex", e.rec)
             C == TokCount(s.f.recs[e.rec]) IN
         IF e.target = "chunk" THEN (IF NoSilentCorruption(e, fulln, P, C) THEN {} ELSE {"C07/Chunk/SilentCorruption"})
         ELSE (IF AttachmentExposed(e, fulln, P) THEN {} ELSE {"C07/Attachment/NotExposed"})
    [] OTHER -> {}

Step(s, e) ==
  CASE e.ev = "Run"  -> [id |-> e.id, f |-> <<>>, fulls |-> <<>>, tmax |-> e.tmax]
    [] e.ev = "File" -> [s EXCEPT !.f = e]
    [] e.ev = "Full" -> [s EXCEPT !.fulls = Append(@, e)]
    [] e.ev = "End"  -> NoRun
    [] OTHER -> s

Init == l = 1 /\ st = NoRun /\ rej = <<>>
Next ==
  /\ l <= Len(Trace)
  /\ LET e == Trace[l]
         s2 == Step(st, e)
         why == Judge(s2, e) IN
     /\ st' = s2
     /\ rej' = IF why = {} THEN rej ELSE Append(rej, [line |-> l, id |-> s2.id, why |-> SetToSeq(why)])
     /\ l' = l + 1
Spec == Init /\ [][Next]_vars
Report == l = Len(Trace) + 1 => PrintT(<<"REJ", ToJson(rej)>>)
AllConsumed == TLCGet("stats").diameter - 1 = Len(Trace)
==========================================================================
