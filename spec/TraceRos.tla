------------------------------ MODULE TraceRos ------------------------------
(***************************************************************************)
(* Total acceptor for the ROS 1 message definition parser (C19): rendered  *)
(* type graphs must parse to the tree Resolve computes from the graph (or   *)
(* fail exactly when Resolve fails); hostile definitions run in isolated    *)
(* workers must end as a result or an error.                               *)
(***************************************************************************)
EXTENDS Ros1Msg, Json, IOUtils

Trace == ndJsonDeserialize(IOEnv.TRACE)

VARIABLES l, rej
tvars == <<l, rej, def, stack, visiting, outcome, maxDepth>>

DefOf(e) ==
  LET names == {e.deps[i].name : i \in DOMAIN e.deps} IN
  [top |-> e.top,
   deps |-> [n \in names |-> e.deps[CHOOSE i \in DOMAIN e.deps : e.deps[i].name = n /\ \A j \in DOMAIN e.deps : e.deps[j].name = n => j <= i].fields]]

JudgeDef(e) ==
  LET want == Resolve(DefOf(e), e.pkg) IN
  IF e.ret = "panic" THEN {"C19/Panic"}
  ELSE IF want.ok THEN (IF e.ret = "ok" /\ e.tree = want.tree THEN {} ELSE IF e.ret = "ok" THEN {"C19/Tree/Differs"} ELSE {"C19/Tree/UnexpectedError"})
  ELSE (IF e.ret = "error" THEN {} ELSE {"C19/Tree/ErrorExpected"})

JudgeCase(e) == IF e.class \in {"ok", "error", "eof"} THEN {} ELSE {"C19/Robustness/" \o e.class \o "/" \o e.kind}

TInit == l = 1 /\ rej = <<>> /\ def = <<>> /\ stack = <<>> /\ visiting = {} /\ outcome = "trace" /\ maxDepth = 0
TNext ==
  /\ l <= Len(Trace)
  /\ LET e == Trace[l]
         why == IF e.ev = "Def" THEN JudgeDef(e) ELSE IF e.ev = "MsgCase" THEN JudgeCase(e) ELSE {} IN
     /\ rej' = IF why = {} THEN rej ELSE Append(rej, [line |-> l, id |-> "ros1msg", why |-> SetToSeq(why)])
     /\ l' = l + 1
  /\ UNCHANGED <<def, stack, visiting, outcome, maxDepth>>
TSpec == TInit /\ [][TNext]_tvars
Report == l = Len(Trace) + 1 => PrintT(<<"REJ", ToJson(rej)>>)
AllConsumed == TLCGet("stats").diameter - 1 = Len(Trace)
==========================================================================
