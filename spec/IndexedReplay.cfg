SPECIFICATION RSpec
CONSTANTS
  NChunks = 1
  MaxMsgs = 1
  Times = {0}
  Orders = {"file"}
  Wide = FALSE
INVARIANTS Conforms
CHECK_DEADLOCK FALSE
