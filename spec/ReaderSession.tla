--------------------------- MODULE ReaderSession ---------------------------
(***************************************************************************)
(* A Reader (go/mcap/reader.go) is a stateful object: it owns one lexer,    *)
(* one stream position and a cached Info.  This module models a *session*:  *)
(* a sequence of complete operations on one Reader of one file - Info, and   *)
(* Messages in its modes, each drained to the end - and asks whether every   *)
(* operation returns what it returns on a fresh Reader (C02, C04, C08 are    *)
(* stated per read, without a proviso about earlier use of the Reader).      *)
(*                                                                           *)
(* As coded: Info parses the summary once (leaving the stream behind the     *)
(* footer) and caches the result; index-based reads seek absolutely; the     *)
(* unindexed iterator - Messages(UsingIndex(false)), and the fall-back of a  *)
(* default read when the summary lacks the index - lexes from wherever the   *)
(* stream happens to be (the fall-back returns to the position the call      *)
(* found, not to the start of the data).  The file is abstracted to NChunks  *)
(* data records with one message each; `pos` = how many of them lie before   *)
(* the stream position.                                                      *)
(***************************************************************************)
EXTENDS Integers, Sequences, FiniteSets, TLC, Json

CONSTANTS NChunks, MaxOps

VARIABLES indexable,   \* the summary carries what index-based reading needs
          pos, cached, hist
vars == <<indexable, pos, cached, hist>>

Ops == {"info", "access", "default", "idxfile", "idxlog", "idxpair", "scan"}
AllMsgs == [i \in 1 .. NChunks |-> i]
From(p) == [i \in 1 .. NChunks - p |-> p + i]
Full == [class |-> "ok", msgs |-> AllMsgs]

(* what the operation returns on a fresh Reader *)
Fresh(op) ==
  CASE op = "info" -> [class |-> "info", complete |-> TRUE]
    [] op = "access" -> [class |-> "access", complete |-> TRUE]
    [] op = "idxlog" /\ ~indexable -> [class |-> "error", msgs |-> <<>>]
    [] OTHER -> Full

(* Info as coded: cached after the first call; the first call leaves the stream behind the summary *)
AfterInfo == IF cached THEN pos ELSE NChunks

Init == indexable \in BOOLEAN /\ pos = 0 /\ cached = FALSE /\ hist = <<>>

Do(op) ==
  /\ Len(hist) < MaxOps
  /\ CASE op = "info" ->
            /\ pos' = AfterInfo /\ cached' = TRUE
            /\ hist' = Append(hist, [op |-> op, res |-> [class |-> "info", complete |-> TRUE]])       \* the unfiltered summary, cached
       [] op = "access" ->
            \* Info, then GetAttachmentReader / GetMetadata for every index entry: absolute seeks to the entries' offsets, one
            \* record lexed at each; the stream is left behind whichever record was fetched last (or behind the summary)
            /\ pos' \in 0 .. NChunks /\ cached' = TRUE
            /\ hist' = Append(hist, [op |-> op, res |-> [class |-> "access", complete |-> TRUE]])
       [] op = "idxpair" ->
            \* two index-based iterators alive at once and advanced in turns (with record look-ups in between): every chunk load
            \* seeks to the chunk's own offset, so neither disturbs the other; without the index the pair is not formed (no event)
            /\ cached' = TRUE
            /\ IF indexable THEN pos' \in 1 .. NChunks /\ hist' = Append(hist, [op |-> op, res |-> Full])
                            ELSE pos' = AfterInfo /\ hist' = Append(hist, [op |-> op, res |-> Full])
       [] op \in {"default", "idxfile", "idxlog"} ->
            /\ cached' = TRUE
            /\ IF indexable
               THEN \* absolute seeks: the position the call found does not matter; afterwards the stream is behind the chunk loaded last
                    /\ pos' \in (IF op = "idxlog" THEN 1 .. NChunks ELSE {NChunks})
                    /\ hist' = Append(hist, [op |-> op, res |-> Full])
               ELSE IF op = "idxlog"
                    THEN pos' = AfterInfo /\ hist' = Append(hist, [op |-> op, res |-> [class |-> "error", msgs |-> <<>>]])
                    ELSE \* fall-back: Info, then back to the position the call found, then the unindexed iterator
                         /\ pos' = NChunks
                         /\ hist' = Append(hist, [op |-> op, res |-> [class |-> "ok", msgs |-> From(pos)]])
       [] op = "scan" ->
            /\ pos' = NChunks /\ UNCHANGED cached
            /\ hist' = Append(hist, [op |-> op, res |-> [class |-> "ok", msgs |-> From(pos)]])
  /\ UNCHANGED indexable

Next == \E op \in Ops : Do(op)
Spec == Init /\ [][Next]_vars

ScanLike(h) == h.op = "scan" \/ (h.op \in {"default", "idxfile"} /\ ~indexable)   \* ("idxpair" is formed only over the index)

(* C08: Info lists the whole summary whatever was done with the Reader before *)
InfoStable == \A i \in DOMAIN hist : hist[i].op = "info" => hist[i].res = Fresh("info")
(* C02: every indexed attachment and metadata record is retrievable from the location its entry gives, whatever was done
   with the Reader before (in particular after a sequential read that ran to the end of the file) *)
AccessStable == \A i \in DOMAIN hist : hist[i].op = "access" => hist[i].res = Fresh("access")
(* C02 - C04: an index-based read does not depend on the Reader's history *)
IndexedStable == \A i \in DOMAIN hist : (~ScanLike(hist[i]) /\ hist[i].op \notin {"info", "access"}) => hist[i].res = Fresh(hist[i].op)
(* the first operation of a session behaves like a fresh Reader, whatever it is *)
FirstStable == hist # <<>> => hist[1].res = Fresh(hist[1].op)
(* NOT an invariant of the code (witness: ReaderSession_scan.cfg): an unindexed read that is not the first operation
   starts where the previous one left the stream and silently returns a suffix - recorded as a known finding *)
ScanStable == \A i \in DOMAIN hist : ScanLike(hist[i]) => hist[i].res = Fresh(hist[i].op)
(* ... and it is exactly a suffix, never anything else (in this abstraction every message carries its own channel record;
   in a real file the unindexed iterator also skips, silently, the messages behind the resume point whose channel record
   lies before it: TraceIndexed.tla accepts a proper sub-sequence in file order under the same known finding) *)
ScanSuffix == \A i \in DOMAIN hist : ScanLike(hist[i]) => \E p \in 0 .. NChunks : hist[i].res.msgs = From(p)

Export == Len(hist) = MaxOps => PrintT(<<"SESSION", ToJson([indexable |-> indexable, ops |-> [i \in DOMAIN hist |-> hist[i].op]])>>)
=============================================================================
