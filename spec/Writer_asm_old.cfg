\* witness of the repaired defect: with the chunk index record as coded before the fix WellFormedInv is violated
SPECIFICATION Spec
CONSTANTS
  MaxCalls = 2
  Times = {0, 1}
  SchemaIds = {1}
  ChannelIds = {0, 1}
  DataLens = {5}
  Chunkings <- Chunkings_two
  FlagSets <- Flags_asm
  WithAux = FALSE
  MinCalls = 0
  WithAsm = TRUE
  WithRefusals = FALSE
  OldChunkIndex <- OldChunkIndexTrue
INVARIANTS WellFormedInv
CHECK_DEADLOCK FALSE
