----------------------------- MODULE IndexProps -----------------------------
(***************************************************************************)
(* Property layer for message reads (C02, C03, C04, C20).                  *)
(* A file description f has                                                *)
(*   msgs   : Seq of [mid, chunk, pos, ch, log, known]  in file order       *)
(*   chans  : Seq of [id, topic, schema]                                    *)
(*   chunks : Seq of [start, end, ...]   chunk headers in file order        *)
(*   cidx   : Seq of chunk index records of the summary                     *)
(* and a read observation e has the options (mode, order, topics, window)   *)
(* and ids, the sequence of message ids returned.  Times are ranks; TMAX is  *)
(* the rank of 2^64-1.                                                      *)
(***************************************************************************)
EXTENDS Integers, Sequences, FiniteSets, SequencesExt, Functions, TLC

Sel(s, P(_)) == SelectSeq(s, P)
MaxOf(S) == CHOOSE x \in S : \A y \in S : x >= y

TopicOf(f, ch) == LET cs == Sel(f.chans, LAMBDA c : c.id = ch) IN cs[1].topic
HasChan(f, ch) == \E i \in DOMAIN f.chans : f.chans[i].id = ch

(* C04: the selected messages, in file order.  infEnd: "no end option" means no upper bound *)
InWindow(e, m, tmax, infEnd) ==
  /\ (~e.hasS \/ e.s <= m.log)
  /\ (IF e.hasE THEN m.log < e.e ELSE infEnd \/ m.log < tmax)
TopicOK(f, e, m) == ~e.hasT \/ e.topics = <<>> \/ (\E i \in DOMAIN e.topics : e.topics[i] = TopicOf(f, m.ch))
Selected(f, e, tmax, infEnd) == Sel(f.msgs, LAMBDA m : m.known /\ HasChan(f, m.ch) /\ TopicOK(f, e, m) /\ InWindow(e, m, tmax, infEnd))

Mids(ms) == [i \in DOMAIN ms |-> ms[i].mid]
MsgOf(f, mid) == f.msgs[mid]        \* mids are 1..Len(f.msgs) in file order

(* C03 *)
ExactlyOnce(ids, sel) ==
  /\ Len(ids) = Len(sel)
  /\ \A i, j \in DOMAIN ids : ids[i] = ids[j] => i = j
  /\ {ids[i] : i \in DOMAIN ids} = {sel[i].mid : i \in DOMAIN sel}
ValidIds(f, ids) == \A i \in DOMAIN ids : ids[i] \in 1 .. Len(f.msgs)
Sorted(f, ids, order) ==
  \A i \in 1 .. Len(ids) - 1 :
    IF order = "log" THEN MsgOf(f, ids[i]).log <= MsgOf(f, ids[i + 1]).log ELSE MsgOf(f, ids[i]).log >= MsgOf(f, ids[i + 1]).log
TiesInFileOrder(f, ids, order) ==
  \A i, j \in DOMAIN ids :
    (i < j /\ MsgOf(f, ids[i]).chunk = MsgOf(f, ids[j]).chunk /\ MsgOf(f, ids[i]).log = MsgOf(f, ids[j]).log)
      => IF order = "log" THEN MsgOf(f, ids[i]).pos < MsgOf(f, ids[j]).pos ELSE MsgOf(f, ids[i]).pos > MsgOf(f, ids[j]).pos

(* C02: what index-based reading needs from the summary *)
UsedChans(f)  == {f.msgs[i].ch : i \in DOMAIN f.msgs}
Indexable(f) ==
  /\ f.chunks # <<>> /\ Len(f.cidx) = Len(f.chunks)
  /\ \A i \in DOMAIN f.msgs : f.msgs[i].chunk # 0
  /\ f.sumChans >= Len(f.chans)
  /\ f.sumSchemas >= f.nschemas

(* C20: the largest set of chunks whose closed time ranges share a point *)
MaxOverlap(f) ==
  IF f.chunks = <<>> THEN 0
  ELSE MaxOf({Cardinality({c \in DOMAIN f.chunks : f.chunks[c].start <= t /\ t <= f.chunks[c].end})
              : t \in {f.chunks[c].start : c \in DOMAIN f.chunks}})
==========================================================================
