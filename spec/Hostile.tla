------------------------------ MODULE Hostile ------------------------------
(***************************************************************************)
(* Implementation-layer model of what go/mcap does with every length,      *)
(* size, count and offset field of its input before using it as a slice    *)
(* bound, an allocation size, a reader limit or a seek distance (DESIGN    *)
(* appendix G), over anchored integers: a value is [a, d] = anchor a plus  *)
(* a small delta, with anchors Z = 0, M31 = 2^31-1, M32 = 2^32-1,           *)
(* M63 = 2^63-1, M64 = 2^64-1.  The conversions are Go's on amd64.  One     *)
(* operator per consumer ("row"); each returns [class, alloc] where class   *)
(* is ok | error | panic | hang and alloc the buffer size requested.  The   *)
(* rows as coded before the fixes are kept (suffix Old) as witnesses.       *)
(***************************************************************************)
EXTENDS Integers, Sequences, FiniteSets, TLC

\* @type: Seq(Str);
Anchors == <<"Z", "M31", "M32", "M63", "M64">>
Rank(a) == CHOOSE i \in DOMAIN Anchors : Anchors[i] = a
V(a, d) == [a |-> a, d |-> d]
Z(n) == V("Z", n)

\* @type: ({ a: Str, d: Int }, { a: Str, d: Int }) => Bool;
Lt(x, y) == Rank(x.a) < Rank(y.a) \/ (x.a = y.a /\ x.d < y.d)
\* @type: ({ a: Str, d: Int }, { a: Str, d: Int }) => Bool;
Le(x, y) == Lt(x, y) \/ x = y
\* @type: ({ a: Str, d: Int }, { a: Str, d: Int }) => Bool;
Gt(x, y) == Lt(y, x)

(* x + k for a small natural k, in uint64 (wraps at 2^64) *)
\* @type: ({ a: Str, d: Int }, Int) => { a: Str, d: Int };
AddU64(x, k) == IF x.a = "M64" /\ x.d + k > 0 THEN Z(x.d + k - 1) ELSE V(x.a, x.d + k)
(* x + k in uint32 (the compressionLen+8 of loadChunk) *)
\* @type: ({ a: Str, d: Int }, Int) => { a: Str, d: Int };
AddU32(x, k) == IF x.a = "M32" /\ x.d + k > 0 THEN Z(x.d + k - 1) ELSE V(x.a, x.d + k)
(* 2 * x in uint64: wraps for x >= 2^63; stays above the 2 GiB ceiling for every other anchored value *)
\* @type: ({ a: Str, d: Int }) => { a: Str, d: Int };
Double(x) == CASE x.a = "Z" -> Z(2 * x.d)
               [] x.a = "M63" /\ x.d > 0 -> Z(2 * (x.d - 1))       \* 2*(2^63-1+d) mod 2^64 = 2d-2
               [] x.a = "M64" -> V("M64", 2 * x.d - 1)             \* 2*(2^64-1+d) mod 2^64 = 2^64-1 + (2d-1)
               [] OTHER -> V("M32", 0)                              \* anything in between: far above 2^31
(* int64(x): negative for x >= 2^63 *)
\* @type: ({ a: Str, d: Int }) => Bool;
IsNegI64(x) == (x.a = "M63" /\ x.d > 0) \/ x.a = "M64"
Ceiling == V("M31", 0)           \* makeSafe: n < math.MaxInt32

\* @type: ({ a: Str, d: Int }) => { class: Str, alloc: { a: Str, d: Int } };
Ok(alloc) == [class |-> "ok", alloc |-> alloc]
Err == [class |-> "error", alloc |-> Z(0)]
Panic == [class |-> "panic", alloc |-> Z(0)]
Hang == [class |-> "hang", alloc |-> Z(0)]
\* @type: ({ a: Str, d: Int }) => { class: Str, alloc: { a: Str, d: Int } };
Over(alloc) == [class |-> "ok", alloc |-> alloc]

\* @type: ({ a: Str, d: Int }) => { class: Str, alloc: { a: Str, d: Int } };
MakeSafe(n) == IF Lt(n, Ceiling) THEN Ok(n) ELSE Err

(* --------------------------------------------------------------- rows (as coded now) *)
(* Lexer.Next: record length of any opcode; maxRecord = 0 means no limit *)
LexRecordLen(v, maxRecord) ==
  IF maxRecord > 0 /\ Gt(v, Z(maxRecord)) THEN Err ELSE MakeSafe(v)

(* Lexer.Next, OpAttachment: int64 limit and relative seek *)
AttachmentRecordLen(v, seekable) == IF Gt(v, V("M63", 0)) THEN Err ELSE Ok(Z(0))
AttachmentRecordLenOld(v, seekable) ==
  IF IsNegI64(v) /\ seekable THEN (IF v = V("M64", -8) THEN Hang ELSE Ok(Z(0)))     \* 2^64-9: seeks back onto the same record
  ELSE Ok(Z(0))

(* loadChunk: compression name length (uint32) read into the scratch buffer *)
MaxName == 65536
ChunkCompressionLen(v) == IF Gt(v, Z(MaxName)) THEN Err ELSE Ok(IF Gt(AddU32(v, 8), Z(32)) THEN AddU32(v, 8) ELSE Z(0))
ChunkCompressionLenOld(v) == IF Gt(AddU32(v, 8), Z(32)) THEN Panic ELSE Ok(Z(0))

(* loadChunk with ValidateChunkCRCs: uncompressed size *)
ChunkUncompressedSizeValidating(v, maxChunk) ==
  IF maxChunk > 0 /\ Gt(v, Z(maxChunk)) THEN Err
  ELSE IF Gt(v, Ceiling) THEN Err
  ELSE MakeSafe(Double(v))
ChunkUncompressedSizeValidatingOld(v, maxChunk) ==
  IF maxChunk > 0 /\ Gt(v, Z(maxChunk)) THEN Err
  ELSE LET r == MakeSafe(Double(v)) IN
       IF r.class = "ok" /\ Gt(v, r.alloc) THEN Panic ELSE r                         \* sliced to the declared size

(* ParseChunk: records length against the bytes of the record *)
ParseChunkRecordsLen(v, avail) == IF Gt(v, Z(avail)) THEN Err ELSE Ok(Z(0))
ParseChunkRecordsLenOld(v, avail) == IF Gt(v, Z(avail)) THEN Panic ELSE Ok(Z(0))

(* readPrefixedString of the attachment reader: copies what the source delivers *)
AttachmentStringLen(v, avail) == IF Gt(v, Z(avail)) THEN [class |-> "error", alloc |-> Z(2 * avail)] ELSE Ok(v)
AttachmentStringLenOld(v, avail) == IF Gt(v, Z(avail)) THEN [class |-> "error", alloc |-> v] ELSE Ok(v)

(* indexed loadChunk: chunk length from the chunk index *)
ChunkIndexChunkLen(v, fileSize, start) == IF Lt(v, Z(9)) \/ Gt(v, Z(fileSize - start)) THEN Err ELSE Ok(v)
ChunkIndexChunkLenOld(v, fileSize, start) ==
  IF IsNegI64(v) \/ Gt(v, V("M63", -1000)) THEN Panic          \* makeslice: len out of range
  ELSE IF Lt(v, Z(9)) THEN Panic                                  \* recordBuf[9:]
  ELSE [class |-> IF Gt(v, Z(fileSize - start)) THEN "error" ELSE "ok", alloc |-> v]

(* indexed loadChunk: uncompressed size of the chunk record; readRecord: record length at a metadata index offset *)
IndexedBufferSize(v) == MakeSafe(v)
IndexedBufferSizeOld(v) == IF IsNegI64(v) \/ Gt(v, V("M63", -1000)) THEN Panic ELSE [class |-> "ok", alloc |-> v]

(* indexed loadChunk: the stored (none) or decoded (zstd) chunk data against the declared uncompressed size that bounds
   the in-chunk walk; `have` is what the chunk really holds *)
IndexedChunkDataLen(v, have) == IF v # Z(have) THEN Err ELSE Ok(v)
IndexedChunkDataLenOld(v, have) == IF Gt(v, Ceiling) THEN Err ELSE IF Gt(v, Z(have)) THEN Panic ELSE Ok(v)   \* walk and NextInto slice by the declared size

(* seekTo: offsets from footer and indexes *)
SeekOffset(v, fileSize) == IF Gt(v, V("M63", 0)) \/ ~Lt(v, Z(fileSize)) THEN Err ELSE Ok(Z(0))

(* --------------------------------------------------------------- exhaustive check *)
Magnitudes(orig, rest) ==
  {Z(0), Z(1), Z(8), Z(9), Z(24), Z(25), Z(orig - 1), Z(orig + 1), Z(rest - 1), Z(rest), Z(rest + 1), Z(MaxName), Z(MaxName + 1),
   V("M31", -1), V("M31", 0), V("M31", 1), V("M32", -8), V("M32", 0), V("M32", 1), V("M63", 0), V("M63", 1), V("M64", -8), V("M64", -7), V("M64", 0)}
U32Magnitudes(orig, rest) == {m \in Magnitudes(orig, rest) : Le(m, V("M32", 0))}

FileSize == 1400
\* @type: ({ class: Str, alloc: { a: Str, d: Int } }, { a: Str, d: Int }) => Bool;
Safe(r, bound) == r.class \in {"ok", "error"} /\ Le(r.alloc, bound)

VARIABLE
  \* @type: Str;
  row
Rows == {"LexRecordLen", "LexRecordLenLimited", "AttachmentRecordLen", "ChunkCompressionLen", "ChunkUncompressedSizeValidating",
         "ChunkUncompressedSizeLimited", "ParseChunkRecordsLen", "AttachmentStringLen", "ChunkIndexChunkLen", "IndexedBufferSize", "IndexedChunkDataLen", "SeekOffset"}
Init == row \in Rows
Next == UNCHANGED row
Spec == Init /\ [][Next]_row

Outcomes(r, old) ==
  LET ms == Magnitudes(100, 700)  us == U32Magnitudes(4, 700) IN
  CASE r = "LexRecordLen" -> {LexRecordLen(m, 0) : m \in ms}
    [] r = "LexRecordLenLimited" -> {LexRecordLen(m, 1048576) : m \in ms}
    [] r = "AttachmentRecordLen" -> {IF old THEN AttachmentRecordLenOld(m, s) ELSE AttachmentRecordLen(m, s) : m \in ms, s \in BOOLEAN}
    [] r = "ChunkCompressionLen" -> {IF old THEN ChunkCompressionLenOld(m) ELSE ChunkCompressionLen(m) : m \in us}
    [] r = "ChunkUncompressedSizeValidating" -> {IF old THEN ChunkUncompressedSizeValidatingOld(m, 0) ELSE ChunkUncompressedSizeValidating(m, 0) : m \in ms}
    [] r = "ChunkUncompressedSizeLimited" -> {IF old THEN ChunkUncompressedSizeValidatingOld(m, 1048576) ELSE ChunkUncompressedSizeValidating(m, 1048576) : m \in ms}
    [] r = "ParseChunkRecordsLen" -> {IF old THEN ParseChunkRecordsLenOld(m, 700) ELSE ParseChunkRecordsLen(m, 700) : m \in ms}
    [] r = "AttachmentStringLen" -> {IF old THEN AttachmentStringLenOld(m, 700) ELSE AttachmentStringLen(m, 700) : m \in us}
    [] r = "ChunkIndexChunkLen" -> {IF old THEN ChunkIndexChunkLenOld(m, FileSize, 300) ELSE ChunkIndexChunkLen(m, FileSize, 300) : m \in ms}
    [] r = "IndexedBufferSize" -> {IF old THEN IndexedBufferSizeOld(m) ELSE IndexedBufferSize(m) : m \in ms}
    [] r = "IndexedChunkDataLen" -> {IF old THEN IndexedChunkDataLenOld(m, 100) ELSE IndexedChunkDataLen(m, 100) : m \in ms}
    [] r = "SeekOffset" -> {SeekOffset(m, FileSize) : m \in ms}

(* the ceiling that applies to a row: the configured limit where one is set, the file size where the data must exist, 2 GiB otherwise *)
BoundOf(r) == CASE r \in {"LexRecordLenLimited"} -> Z(1048576)
                [] r = "ChunkUncompressedSizeLimited" -> Z(2 * 1048576)
                [] r \in {"AttachmentStringLen", "ChunkIndexChunkLen"} -> Z(2 * FileSize)
                [] r = "ChunkCompressionLen" -> Z(MaxName + 8)
                [] OTHER -> Ceiling

(* C10 on the model: no consumer panics or hangs, and no consumer asks for more than its ceiling *)
NoCrashNoOverAlloc == \A o \in Outcomes(row, FALSE) : Safe(o, BoundOf(row))
(* witness: the rows as coded before the fixes do violate it (checked to be violated by the C10 self-test) *)
OldNoCrashNoOverAlloc == \A o \in Outcomes(row, TRUE) : Safe(o, BoundOf(row))
==========================================================================
