SPECIFICATION Spec2
INVARIANT Report
POSTCONDITION AllConsumed
CHECK_DEADLOCK FALSE
