---------------------------- MODULE TraceIndexed ----------------------------
(***************************************************************************)
(* Total acceptor for message reads of the real Reader (Messages in every   *)
(* mode, order, topic set and window; Info; random access to indexed        *)
(* attachments and metadata) over files built by the reference encoder or   *)
(* written by the real writer.  Properties C02, C03, C04, C20 (and the Info  *)
(* clause of C08).                                                          *)
(***************************************************************************)
EXTENDS IndexProps, Json, IOUtils

Trace == ndJsonDeserialize(IOEnv.TRACE)

VARIABLES l, st, rej
vars == <<l, st, rej>>

NoRun == [id |-> "", f |-> <<>>, tmax |-> 0, seen |-> <<>>]

IsStream(e) == "stream" \in DOMAIN e /\ e.stream       \* the Reader was built over a source that cannot seek
Key(e) == <<e.mode, e.order, e.hasT, e.topics, e.hasS, e.s, e.hasE, e.e, e.form, IsStream(e)>>
Filtered(e) == e.hasT \/ e.hasS \/ e.hasE
Ordered(e)  == e.order \in {"log", "rlog"}
LegalWindow(e) == ~(e.hasS /\ e.hasE) \/ e.s <= e.e
Ended(e) == e["end"]

(* C20: buffers held by an iterator: at most maxSlots decompressed chunks plus one chunk record being read
   (1.2x growth policy, decoder append slack) plus one record, not the file *)
MaxField(seq, fld) == IF seq = <<>> THEN 0 ELSE MaxOf({seq[i][fld] : i \in DOMAIN seq})
BufBoundKiB(f, slots) == ((MaxOf({1, slots}) * 2 * MaxField(f.chunks, "usize") + 2 * MaxField(f.chunks, "len") + 2 * f.maxRec) \div 1024) + 64

(* C20: attachments stream through reader and writer in constant memory *)
(* ... and the writer's live heap does not grow with the number of messages written (dir write-long*: peakKiB is the growth
   between message 100 000 and 300 000; measured 8 - 13 KiB on the unchanged tree) *)
JudgeStream(e) ==
  IF e.dir \in {"write-long", "write-long-noindex"} THEN (IF e.ok /\ e.peakKiB <= 512 THEN {} ELSE {"C20/WriterHeap/" \o e.dir})
  ELSE IF e.ok /\ e.peakKiB <= 4096 /\ e.totalKiB <= 8192 THEN {} ELSE {"C20/Stream/" \o e.dir}

JudgeRead(s, e) ==
  LET f == s.f
      sel == Selected(f, e, s.tmax, TRUE)
      selx == Selected(f, e, s.tmax, FALSE)      \* the same without the messages at 2^64-1 when no end was given
      ids == e.ids
      indexed == e.mode \in {"default", "index"}
      P == IF Filtered(e) THEN "C04" ELSE IF Ordered(e) THEN "C03" ELSE IF indexed THEN "C02" ELSE "C01"
      \* Reader sessions (ReaderSession.tla): the operation was not the first one on its Reader, and it reads without the
      \* index (explicitly, or by falling back): as coded it starts where the stream was left and returns a suffix
      moved == "moved" \in DOMAIN e /\ e.moved
      scanlike == e.mode = "scan" \/ (indexed /\ ~Indexable(f) /\ ~Ordered(e))
      \* a proper later part: what lies behind some point of the stream, less the messages whose channel record lies before that
      \* point (the unindexed iterator skips messages of channels it has not seen) - a proper sub-sequence, in file order
      IsSuffixOf(full) == /\ ids # full /\ \A i \in DOMAIN ids : \E j \in DOMAIN full : full[j] = ids[i]
                          /\ \A i, k \in DOMAIN ids : i < k =>
                                (CHOOSE j \in DOMAIN full : full[j] = ids[i]) < (CHOOSE j \in DOMAIN full : full[j] = ids[k])
  IN
  IF ~LegalWindow(e) THEN {}
  ELSE IF Ended(e) = "panic" THEN {"C10/Panic/Messages"}
  ELSE IF Ended(e) = "hang" THEN {"C10/Hang/Messages", P \o "/Hang"}
  \* ... or fails on a record whose definition lies before that point (the same reads are judged on fresh Readers too)
  ELSE IF moved /\ scanlike /\ Ended(e) = "error" THEN {P \o "/Session/StreamNotRewound"}
  ELSE IF Ended(e) \in {"error", "openerror"} THEN
       (IF indexed /\ ~Indexable(f) /\ (Ordered(e) \/ Ended(e) = "error") THEN {}       \* C02: falling back or failing is allowed when the summary lacks the index
        ELSE IF indexed /\ IsStream(e) THEN {}                                            \* ... or when the source cannot seek: the index is out of reach
        ELSE {P \o "/UnexpectedError"})
  (* a returned triple that is not a message of the file, or whose fields / channel / schema differ: index-based access
     no longer finds what the scan finds (C02), whatever the order or filter *)
  ELSE IF ~ValidIds(f, ids) THEN {P \o "/ForeignMessage"} \cup (IF indexed THEN {"C02/ForeignMessage"} ELSE {})
  ELSE IF e.inexact # 0 THEN {P \o "/AlteredContent"} \cup (IF indexed THEN {"C02/AlteredContent"} ELSE {})
  ELSE IF moved /\ scanlike /\ Ended(e) = "eof" /\ (IsSuffixOf(Mids(sel)) \/ IsSuffixOf(Mids(selx))) THEN {P \o "/Session/StreamNotRewound"}
  ELSE LET member == IF ExactlyOnce(ids, sel) THEN {}
                     ELSE IF ExactlyOnce(ids, selx) THEN {P \o "/Selection/LogTimeMaxNotReturned"}
                     ELSE IF Len(ids) < Len(sel) /\ \A i, j \in DOMAIN ids : ids[i] = ids[j] => i = j
                          THEN {IF Filtered(e) THEN "C04/Selection/Missing" ELSE IF indexed /\ ~Ordered(e) THEN "C02/SilentlyFewer" ELSE P \o "/ExactlyOnce/Missing"}
                     ELSE {IF Filtered(e) THEN "C04/Selection/Extra" ELSE P \o "/ExactlyOnce"}
           order == IF member # {} THEN {}
                    ELSE IF ~Ordered(e) THEN (IF ids = Mids(sel) \/ ids = Mids(selx) THEN {} ELSE {IF indexed THEN "C02/FileOrder" ELSE "C01/FileOrder"})
                    ELSE (IF Sorted(f, ids, e.order) THEN {} ELSE {"C03/Sorted"}) \cup (IF TiesInFileOrder(f, ids, e.order) THEN {} ELSE {"C03/Ties"})
           prev == Sel(s.seen, LAMBDA x : x.key = Key(e))
           rep == IF prev # <<>> /\ prev[1].ids # ids THEN {"C03/Repeatable"} ELSE {}
           mem == IF e.mode = "scan" THEN {}
                  ELSE IF ~Ordered(e) THEN (IF e.maxSlots <= 1 THEN {} ELSE {"C20/Slots/FileOrder"})
                  ELSE (IF e.maxSlots <= MaxOf({1, MaxOverlap(f)}) THEN {} ELSE {"C20/Slots/Overlap"})
           buf == IF e.capKiB <= BufBoundKiB(f, e.maxSlots) THEN {} ELSE {"C20/Buffers"}
       IN member \cup order \cup rep \cup mem \cup buf

JudgeInfo(s, e) ==
  LET f == s.f
      X(fld, n) == ~(fld \in DOMAIN e) \/ e[fld] = n          \* exactness fields (older traces do not carry them)
  IN
  IF e.ret = "panic" THEN {"C10/Panic/Info"}
  ELSE IF e.ret # "ok" THEN {"C08/Info/Error"}
  ELSE (IF e.nChannels = f.sumChans THEN {} ELSE {"C08/Info/Channels"})
       \cup (IF e.nSchemas = f.sumSchemas THEN {} ELSE {"C08/Info/Schemas"})
       \cup (IF e.nChunkIdx = Len(f.cidx) THEN {} ELSE {"C08/Info/ChunkIndexes"})
       \cup (IF e.nAttIdx = f.nAttIdx THEN {} ELSE {"C08/Info/AttachmentIndexes"})
       \cup (IF e.nMdIdx = f.nMdIdx THEN {} ELSE {"C08/Info/MetadataIndexes"})
       \cup (IF e.hasStats = f.hasStats /\ (f.hasStats => e.msgs = f.statsMsgs) THEN {} ELSE {"C08/Info/Statistics"})
       \* every listed item equals, field by field, a record of the summary (decided by the harness on exact values)
       \cup (IF X("xChannels", f.sumChans) THEN {} ELSE {"C08/Info/Channels/Content"})
       \cup (IF X("xSchemas", f.sumSchemas) THEN {} ELSE {"C08/Info/Schemas/Content"})
       \cup (IF X("xChunkIdx", Len(f.cidx)) THEN {} ELSE {"C08/Info/ChunkIndexes/Content"})
       \cup (IF X("xAttIdx", f.nAttIdx) THEN {} ELSE {"C08/Info/AttachmentIndexes/Content"})
       \cup (IF X("xMdIdx", f.nMdIdx) THEN {} ELSE {"C08/Info/MetadataIndexes/Content"})
       \cup (IF X("xStats", TRUE) THEN {} ELSE {"C08/Info/Statistics/Content"})
       \* Info.ChannelCounts, the per-topic view of the per-channel counts: never a crash, and the channel's count for every
       \* topic that one channel carries
       \cup (IF X("ccPanic", FALSE) THEN {} ELSE {"C08/Info/ChannelCounts/Panic"})
       \cup (IF X("ccPanic", FALSE) /\ ~X("ccOK", TRUE) THEN {"C08/Info/ChannelCounts"} ELSE {})
       \cup (IF e.attOK = e.nAttIdx THEN {} ELSE {"C02/AttachmentByIndex"})
       \cup (IF e.mdOK = e.nMdIdx THEN {} ELSE {"C02/MetadataByIndex"})

(* metadata callback: every metadata record on a scan, every indexed one on an index-based read *)
JudgeMdCb(s, e) ==
  IF ~("mdcb" \in DOMAIN e) \/ ~e.mdcb \/ Ended(e) # "eof" THEN {}
  ELSE LET byContent == "mdsMatch" \in DOMAIN e IN       \* the records themselves, as a multiset (older traces: the count)
       IF e.mode = "scan" \/ ~Indexable(s.f)
       THEN (IF (byContent /\ e.mdsMatch \in {"all", "indexed", "both"}) \/ (~byContent /\ e.mds \in {s.f.nMd, s.f.nMdIdx}) THEN {} ELSE {"C02/MetadataCallback"})
       ELSE (IF (byContent /\ e.mdsMatch \in {"indexed", "both"}) \/ (~byContent /\ e.mds = s.f.nMdIdx) THEN {} ELSE {"C02/MetadataCallback"})

(* implementation layer (ReadDecision.tla): the read carries the model's prediction of its outcome class and of the
   iterator that serves it; a disagreement is drift, never a verdict *)
DecisionDrift(s, e) ==
  IF ~("predClass" \in DOMAIN e) THEN {}
  ELSE LET obs == IF Ended(e) \in {"error", "openerror"} THEN "error" ELSE IF Len(e.ids) = Len(s.f.msgs) THEN "exact" ELSE "fewer"
           via == IF Ended(e) = "openerror" THEN "none" ELSE IF e.indexed THEN "index" ELSE "scan" IN
       IF obs = e.predClass /\ via = e.predVia THEN {} ELSE {"DRIFT/ReadDecision/" \o e.dmode}

Judge(s, e) ==
  CASE e.ev = "Read" /\ s.f # <<>> -> JudgeRead(s, e) \cup JudgeMdCb(s, e) \cup DecisionDrift(s, e)
    [] e.ev = "Info" /\ s.f # <<>> -> JudgeInfo(s, e)
    [] e.ev = "Stream" -> JudgeStream(e)
    [] OTHER -> {}

Step(s, e) ==
  CASE e.ev = "Run"   -> [id |-> e.id, f |-> <<>>, tmax |-> e.tmax, seen |-> <<>>]
    [] e.ev = "IFile" -> [s EXCEPT !.f = e, !.seen = <<>>]
    [] e.ev = "Read"  -> [s EXCEPT !.seen = Append(@, [key |-> Key(e), ids |-> e.ids])]
    [] e.ev = "End"   -> NoRun
    [] OTHER -> s

Init == l = 1 /\ st = NoRun /\ rej = <<>>
Next ==
  /\ l <= Len(Trace)
  /\ LET e == Trace[l]
         why == Judge(st, e)
         s2 == Step(st, e) IN
     /\ st' = s2
     /\ rej' = IF why = {} THEN rej ELSE Append(rej, [line |-> l, id |-> st.id, why |-> SetToSeq(why)])
     /\ l' = l + 1
Spec == Init /\ [][Next]_vars
Report == l = Len(Trace) + 1 => PrintT(<<"REJ", ToJson(rej)>>)
AllConsumed == TLCGet("stats").diameter - 1 = Len(Trace)
==========================================================================
