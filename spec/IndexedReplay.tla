--------------------------- MODULE IndexedReplay ---------------------------
(***************************************************************************)
(* Implementation-layer binding of IndexedRead.tla to the code: for every   *)
(* index-based read recorded from the real iterator, the model iterator is  *)
(* started on the same file description and read options; when it is done,  *)
(* the sequence it yields and the number of chunk slots it allocated must   *)
(* equal what the real iterator yielded and what the verif accessor         *)
(* reported.  Disagreement is MODEL-DRIFT (printed), never a verdict.       *)
(***************************************************************************)
EXTENDS IndexedRead, Json, IOUtils

Trace == ndJsonDeserialize(IOEnv.TRACE)

VARIABLE k      \* trace line of the read being replayed

FileLine(n) == CHOOSE j \in 1 .. n : Trace[j].ev = "IFile" /\ \A x \in j + 1 .. n : Trace[x].ev # "IFile"
RunLine(n)  == CHOOSE j \in 1 .. n : Trace[j].ev = "Run" /\ \A x \in j + 1 .. n : Trace[x].ev # "Run"
Replayable(n) ==
  /\ Trace[n].ev = "Read" /\ Trace[n].mode \in {"index", "default"} /\ Trace[n]["end"] = "eof"
  /\ LET ff == Trace[FileLine(n)] IN Indexable(ff) /\ \A i \in DOMAIN ff.msgs : ff.msgs[i].known
  /\ (Trace[n].hasS /\ Trace[n].hasE => Trace[n].s <= Trace[n].e)

RInit ==
  /\ k \in {n \in DOMAIN Trace : Replayable(n)}
  /\ f = Trace[FileLine(k)] @@ [tmax |-> Trace[RunLine(k)].tmax]
  /\ rd = [Trace[k] EXCEPT !.order = IF @ = "" THEN "file" ELSE @]
  /\ it = NewIterator
RNext == Next /\ UNCHANGED k
RSpec == RInit /\ [][RNext]_<<vars, k>>

Conforms == it.done =>
  (IF it.yielded = Trace[k].ids /\ Len(it.slots) = Trace[k].maxSlots THEN TRUE
   ELSE PrintT(<<"DRIFT", k, IF it.yielded = Trace[k].ids THEN "slots" ELSE "yield">>))
Replayed == it.done => PrintT(<<"REPLAYED", k>>)
==========================================================================
