SPECIFICATION TSpec
CONSTANTS MaxTopFields = 1
INVARIANT Report
POSTCONDITION AllConsumed
CHECK_DEADLOCK FALSE
