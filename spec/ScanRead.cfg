SPECIFICATION Spec
CONSTANTS
  MaxLen = 4
  TMAX = 3
INVARIANTS ScanExact YieldsAreMessages
CHECK_DEADLOCK FALSE
