------------------------- MODULE TraceWriterImpl -------------------------
(***************************************************************************)
(* Implementation-layer acceptor: steps the operators of Writer.tla over   *)
(* the calls recorded from the real writer and compares, after every call, *)
(* the model's projected state with the writer's public state (Offset(),   *)
(* Statistics, index list lengths), and at the end the layout of the       *)
(* produced file (kind, position, length of every record, inner records    *)
(* of chunks) with the model's output.  A mismatch is MODEL-DRIFT: it      *)
(* never produces a verdict (the property layer does), it says that the    *)
(* model no longer describes the code.  The only unlogged variable, the    *)
(* compressed size of each chunk, is bound from the Run event (csizes).    *)
(***************************************************************************)
EXTENDS Writer, ScanRead, Json, IOUtils

Trace == ndJsonDeserialize(IOEnv.TRACE)

VARIABLES l, w, run, drift, hist      \* hist[i + 1]: the model writer after call i (hist[1]: after NewWriter), for the attachment-source replays
vars == <<l, w, run, drift, hist>>

NoW == [none |-> TRUE]
NoRun == [id |-> "", live |-> FALSE, csizes |-> <<>>, tmax |-> 0, recs |-> <<>>]

(* the token stream the unindexed iterator sees: every record of the file in file order, chunks expanded *)
TokensOf(recs) == FoldLeft(LAMBDA acc, r : IF r.k = "Chunk" THEN acc \o r.inner ELSE Append(acc, r), <<>>, recs)
(* ScanRead.tla stepped over the decoded file (no topic set, the default window [0, 2^64-1)) against the recorded scan *)
ScanAgrees(recs, tmax, obs) ==
  LET R == ScanAll(TokensOf(recs), {}, 0, tmax) IN
  /\ ~R.err /\ Len(R.out) = Len(obs)
  /\ \A i \in DOMAIN obs :
       /\ SameMessage(obs[i].msg, R.out[i].msg)
       /\ obs[i].channel.k = "Channel" /\ obs[i].channel.id = R.out[i].channel.id /\ obs[i].channel.topic = R.out[i].channel.topic
       /\ IF R.out[i].schema = <<>> THEN obs[i].schema.k = "None" ELSE obs[i].schema.k = "Schema" /\ obs[i].schema.id = R.out[i].schema[1].id

NextCSize(r, wr) == IF Len(wr.chunkIdx) + 1 <= Len(r.csizes) THEN r.csizes[Len(wr.chunkIdx) + 1] ELSE wr.cpos

StepCall(r, wr, e) ==
  CASE e.op = "header"  -> WriteHeader(wr, [profile |-> e.profile, library |-> e.explib])
    [] e.op = "schema"  -> LET s == [id |-> e.id, name |-> e.name, enc |-> e.enc, data |-> e.data] IN
                           IF SchemaOK(wr, s) THEN WriteSchema(wr, s) ELSE wr
    [] e.op = "channel" -> LET c == [id |-> e.id, schema |-> e.schema, topic |-> e.topic, menc |-> e.menc, md |-> e.md] IN
                           IF ChannelOK(wr, c) THEN WriteChannel(wr, c) ELSE wr
    [] e.op = "message" -> LET m == [ch |-> e.ch, seq |-> e.seq, log |-> e.log, pub |-> e.pub, data |-> e.data] IN
                           IF MessageOK(wr, m)
                           THEN WriteMessage(wr, m, IF WillFlush(wr, m) THEN NextCSize(r, [wr EXCEPT !.cpos = @ + MkMessage(0, m).len]) ELSE 0)
                           ELSE wr
    [] e.op = "attachment" -> IF e.src = "" THEN WriteAttachment(wr, [log |-> e.log, create |-> e.create, name |-> e.name, media |-> e.media,
                                                                       dsize |-> e.dsize, data |-> e.data])
                              ELSE wr
    [] e.op = "metadata" -> WriteMetadata(wr, [name |-> e.name, md |-> e.md])
    [] e.op = "addschema"  -> AddSchema(wr, [id |-> e.id, name |-> e.name, enc |-> e.enc, data |-> e.data])
    [] e.op = "addchannel" -> AddChannel(wr, [id |-> e.id, schema |-> e.schema, topic |-> e.topic, menc |-> e.menc, md |-> e.md])
    [] e.op = "chunk" -> LET c0 == ExtChunk(e.items, e.comp, e.csize, ~wr.cfg.crc) IN
                         CallerCounts(WriteChunkWithIndexes(wr, c0, e.given), IF c0.usize = 0 THEN <<>> ELSE e.items)
    [] e.op = "close" -> Close(wr, NextCSize(r, wr))
    [] OTHER -> wr

ProjFields == {"off", "msgs", "schemas", "channels", "atts", "mds", "chunks", "start", "end", "nci", "nai", "nmi", "nw"}
ProjDiff(wr, st) == {f \in ProjFields : Proj(wr)[f] # st[f]}

Layout(recs) == [i \in DOMAIN recs |->
                   IF recs[i].k = "Chunk" THEN <<recs[i].k, recs[i].pos, recs[i].len, [j \in DOMAIN recs[i].inner |-> <<recs[i].inner[j].k, recs[i].inner[j].pos, recs[i].inner[j].len>>]>>
                   ELSE <<recs[i].k, recs[i].pos, recs[i].len>>]

Init == l = 1 /\ w = NoW /\ run = NoRun /\ drift = <<>> /\ hist = <<>>

Next ==
  /\ l <= Len(Trace)
  /\ LET e == Trace[l] IN
     /\ l' = l + 1
     /\ hist' = CASE e.ev = "Run" -> <<NewWriter(e.cfg, e.tmax)>>
                  [] e.ev = "Call" /\ run.live -> Append(hist, IF e.ret = "ok" THEN StepCall(run, w, e) ELSE w)
                  [] e.ev = "End" -> <<>>
                  [] OTHER -> hist
     /\ CASE e.ev = "Run" -> /\ run' = [id |-> e.id, live |-> TRUE, csizes |-> e.csizes, tmax |-> e.tmax, recs |-> <<>>]
                             /\ w' = NewWriter(e.cfg, e.tmax) /\ UNCHANGED drift
          [] e.ev = "New" /\ run.live ->
               IF e.ret # "ok" THEN run' = [run EXCEPT !.live = FALSE] /\ UNCHANGED <<w, drift>>
               ELSE LET d == ProjDiff(w, e.st) IN
                    /\ UNCHANGED w
                    /\ drift' = IF d = {} THEN drift ELSE Append(drift, [line |-> l, id |-> run.id, what |-> SetToSeq(d)])
                    /\ run' = IF d = {} THEN run ELSE [run EXCEPT !.live = FALSE]
          [] e.ev = "Call" /\ run.live ->
               IF e.ret # "ok" /\ e.op \in {"header", "message", "close", "metadata"} /\ ~("refused" \in DOMAIN e /\ e.refused)
               THEN run' = [run EXCEPT !.live = FALSE] /\ UNCHANGED <<w, drift>>     \* an unexpected error: judged by the property layer
               ELSE LET w2 == IF e.ret = "ok" THEN StepCall(run, w, e) ELSE w
                        d == ProjDiff(w2, e.st) IN
                    /\ w' = w2
                    /\ drift' = IF d = {} THEN drift ELSE Append(drift, [line |-> l, id |-> run.id, what |-> SetToSeq(d)])
                    /\ run' = IF d = {} THEN run ELSE [run EXCEPT !.live = FALSE]
          [] e.ev = "File" /\ run.live /\ w.closed ->
               LET same == Layout(w.out) = Layout(e.recs) /\ w.flen = e.flen IN
               /\ drift' = IF same THEN drift ELSE Append(drift, [line |-> l, id |-> run.id, what |-> <<"layout">>])
               /\ run' = [run EXCEPT !.recs = e.recs] /\ UNCHANGED w
          [] e.ev = "Scan" /\ run.live /\ run.recs # <<>> /\ e["end"] = "eof" ->
               /\ drift' = IF ScanAgrees(run.recs, run.tmax, e.msgs) THEN drift ELSE Append(drift, [line |-> l, id |-> run.id, what |-> <<"scan">>])
               /\ UNCHANGED <<w, run>>
          [] e.ev = "AttSrc" /\ "st" \in DOMAIN e /\ e.call <= Len(hist) ->
               \* the same call sequence up to this attachment, whose source misbehaves: position and destination writes after the failed call
               LET a == [log |-> e.a.log, create |-> e.a.create, name |-> e.a.name, media |-> e.a.media, dsize |-> e.a.dsize, data |-> e.a.data]
                   p == WriteAttachmentSrc(hist[e.call], a, e.skind, e.sk)
                   same == e.ret = "err" /\ p.pos = e.st.off /\ p.nw = e.st.nw /\ Len(p.attIdx) = e.st.nai /\ p.stats.atts = e.st.atts IN
               /\ drift' = IF same THEN drift ELSE Append(drift, [line |-> l, id |-> run.id, what |-> <<"attsrc">>])
               /\ UNCHANGED <<w, run>>
          [] e.ev = "End" -> run' = NoRun /\ w' = NoW /\ UNCHANGED drift
          [] OTHER -> UNCHANGED <<w, run, drift>>

Spec == Init /\ [][Next]_vars
Report == l = Len(Trace) + 1 => PrintT(<<"REJ", ToJson(drift)>>)
AllConsumed == TLCGet("stats").diameter - 1 = Len(Trace)
==========================================================================
