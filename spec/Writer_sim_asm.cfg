SPECIFICATION Spec
CONSTANTS
  MaxCalls = 10
  Times = {0, 1, 2, 3}
  SchemaIds = {1, 2}
  ChannelIds = {0, 1, 2}
  DataLens = {0, 5, 60}
  Chunkings <- Chunkings_sim
  FlagSets <- Flags_all_magic
  WithAux = TRUE
  MinCalls = 6
  WithAsm = TRUE
  WithRefusals = FALSE
INVARIANTS WellFormedInv IndexExactInv ContentInv CrcInv StatsInv Export
CHECK_DEADLOCK FALSE
