SPECIFICATION Spec
CONSTANTS
  MaxCalls = 3
  Times = {0, 1}
  SchemaIds = {1}
  ChannelIds = {1}
  DataLens = {5}
  Chunkings <- Chunkings_two
  FlagSets <- Flags_all_magic
  WithAux = TRUE
  MinCalls = 0
  WithAsm = FALSE
  WithRefusals = FALSE
INVARIANTS WellFormedInv IndexExactInv ContentInv CrcInv StatsInv LiveStatsInv
CHECK_DEADLOCK FALSE
