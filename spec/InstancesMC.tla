---------------------------- MODULE InstancesMC ----------------------------
EXTENDS Instances
MdA == {[k |-> B(1, 1), v |-> B(5, 1)], [k |-> B(2, 1), v |-> B(6, 1)]}
W1 == <<[op |-> "header"], [op |-> "schema", id |-> 1], [op |-> "channel", id |-> 0, schema |-> 1, md |-> SetToSeq(MdA)],
        [op |-> "message", ch |-> 0, n |-> 1, t |-> 1], [op |-> "message", ch |-> 0, n |-> 2, t |-> 0], [op |-> "close"]>>
W2 == <<[op |-> "header"], [op |-> "channel", id |-> 1, schema |-> 0, md |-> <<>>], [op |-> "message", ch |-> 1, n |-> 1, t |-> 2],
        [op |-> "metadata", md |-> SetToSeq(MdA)], [op |-> "close"]>>
W3 == <<[op |-> "header"], [op |-> "close"]>>
TheWorkloads == {W1, W2, W3}
=============================================================================
