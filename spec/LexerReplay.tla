---------------------------- MODULE LexerReplay ----------------------------
(***************************************************************************)
(* Implementation-layer binding of Lexer.tla to the code: for every read of *)
(* a truncated file (Cut) or a file with an injected source error (Fault)   *)
(* recorded from the real lexer, the model lexer is started on the          *)
(* description of the same file (record lengths, chunk header / payload /   *)
(* inner record lengths, attachment layout) with the same cut or fault      *)
(* position and options; when it is done, the number of tokens it emitted   *)
(* and the way it ended must equal what the real lexer did.  Only           *)
(* deterministic configurations are replayed (uncompressed chunks, or chunk  *)
(* validation on).  Disagreement is MODEL-DRIFT (printed), never a verdict.  *)
(***************************************************************************)
EXTENDS Lexer, Json, IOUtils

Trace == ndJsonDeserialize(IOEnv.TRACE)

VARIABLES env, s, k
vars == <<env, s, k>>

Stride == IF "LEXSTRIDE" \in DOMAIN IOEnv THEN atoi(IOEnv.LEXSTRIDE) ELSE 1
FileLine(n) == CHOOSE j \in 1 .. n : Trace[j].ev = "LFile" /\ \A x \in j + 1 .. n : Trace[x].ev # "LFile"
(* what a decompressor does with a payload that is cut or fails part-way is not determined by the model *)
InCompressedPayload(F, p) == \E i \in DOMAIN F : F[i].k = "Chunk" /\ F[i].comp # "none" /\ p >= PosOf(F, i) + F[i].hdr /\ p < PosOf(F, i) + F[i].len
Deterministic(F, validate, p) == ~InCompressedPayload(F, p) /\ (validate \/ \A i \in DOMAIN F : F[i].k = "Chunk" => F[i].comp = "none")
Replayable(n) ==
  /\ Trace[n].ev \in {"Cut", "Fault"} /\ Trace[n].via = "lex"
  /\ (Trace[n].ev = "Fault" => ~Trace[n].seekable)
  /\ Deterministic(Trace[FileLine(n)].recs, Trace[n].validate, IF Trace[n].ev = "Cut" THEN Trace[n].cut ELSE Trace[n].at)
  /\ n % Stride = 0

EnvOf(n) ==
  LET e == Trace[n]  F == Trace[FileLine(n)].recs IN
  [F |-> F, cut |-> IF e.ev = "Cut" THEN e.cut ELSE FLen(F), faultAt |-> IF e.ev = "Fault" THEN e.at ELSE -1,
   damaged |-> 0, effect |-> "none", validate |-> e.validate, emitInvalid |-> FALSE, seekable |-> FALSE, callback |-> TRUE, crcStored |-> TRUE]

RInit == /\ k \in {n \in DOMAIN Trace : Replayable(n)}
         /\ env = EnvOf(k) /\ s = Start(env)
AtChunk == s.mode = "top" /\ RecAt(env.F, s.pos) # 0 /\ env.F[RecAt(env.F, s.pos)].k = "Chunk"
RNext ==
  /\ s.end = "" /\ UNCHANGED <<env, k>>
  /\ IF s.mode = "chunk" THEN s' = StepChunk(env, s)
     ELSE IF ~AtChunk THEN s' = StepTop(env, s, "ok", 0, "eof")
     ELSE LET i == RecAt(env.F, s.pos)
              c == env.F[i]
              complete == Avail(env) >= s.pos + c.hdr + c.csize IN
          \E o \in ValidateOutcomes(env, i, complete) : s' = StepTop(env, s, o, 0, IF env.faultAt >= 0 /\ ~complete THEN "ioerr" ELSE "ueof")
RSpec == RInit /\ [][RNext]_vars

Conforms == s.end # "" =>
  (IF Len(s.toks) = Trace[k].n /\ s.end = Trace[k]["end"] THEN TRUE
   ELSE PrintT(<<"DRIFT", k, Len(s.toks), s.end>>))
==========================================================================
