----------------------------- MODULE ScanReadMC -----------------------------
(***************************************************************************)
(* Every token sequence of bounded length over a small alphabet x topic set *)
(* x window, scanned by ScanRead.tla and compared with the property layer:   *)
(* for a stream in which every message is preceded by its channel and every  *)
(* channel by its schema, and re-definitions are identical, the scan yields  *)
(* exactly the selected messages (C01, C04), each bound to its channel and   *)
(* schema, and never errs.  Deviation named: with an end of 2^64-1 given by  *)
(* default the messages at 2^64-1 are not yielded (known finding).           *)
(***************************************************************************)
EXTENDS ScanRead

CONSTANTS MaxLen, TMAX

Tops == {"a", "b"}
SchemaTok(id) == [k |-> "Schema", id |-> id]
ChannelTok(id, sc, tp) == [k |-> "Channel", id |-> id, schema |-> sc, topic |-> tp]
MessageTok(ch, t, n) == [k |-> "Message", ch |-> ch, log |-> t, n |-> n]
Alphabet(n) == {SchemaTok(1)} \cup {ChannelTok(c, sc, tp) : c \in {1, 2}, sc \in {0, 1}, tp \in Tops}
               \cup {MessageTok(c, t, n) : c \in {1, 2}, t \in {0, 1, TMAX}} \cup {[k |-> "Metadata"]}

VARIABLES toks, topics, win, fin
vars == <<toks, topics, win, fin>>

Init == toks = <<>> /\ topics \in {{}, {"a"}} /\ win \in {[s |-> 0, e |-> TMAX, dflt |-> TRUE], [s |-> 1, e |-> TMAX, dflt |-> FALSE], [s |-> 0, e |-> 1, dflt |-> FALSE]} /\ fin = FALSE
Extend == ~fin /\ Len(toks) < MaxLen /\ \E t \in Alphabet(Len(toks)) : toks' = Append(toks, t) /\ UNCHANGED <<topics, win, fin>>
Finish == ~fin /\ fin' = TRUE /\ UNCHANGED <<toks, topics, win>>
Next == Extend \/ Finish
Spec == Init /\ [][Next]_vars

(* ---- property layer, written from the property statements *)
ChanDefsBefore(i, ch) == {j \in 1 .. i - 1 : toks[j].k = "Channel" /\ toks[j].id = ch}
SchemaBefore(i, id) == \E j \in 1 .. i - 1 : toks[j].k = "Schema" /\ toks[j].id = id
Legal ==
  /\ \A i \in DOMAIN toks : toks[i].k = "Message" => ChanDefsBefore(i, toks[i].ch) # {}
  /\ \A i \in DOMAIN toks : (toks[i].k = "Channel" /\ toks[i].schema # 0) => SchemaBefore(i, toks[i].schema)
  /\ \A i, j \in DOMAIN toks : (toks[i].k = "Channel" /\ toks[j].k = "Channel" /\ toks[i].id = toks[j].id) => toks[i] = toks[j]
ChanOf(i) == toks[CHOOSE j \in ChanDefsBefore(i, toks[i].ch) : TRUE]
(* "no end given" means no upper bound *)
InWin(t) == win.s <= t /\ (win.dflt \/ t < win.e)
Selected == SelectSeq([i \in DOMAIN toks |-> [i |-> i, t |-> toks[i]]],
                      LAMBDA x : x.t.k = "Message" /\ InWin(x.t.log) /\ (topics = {} \/ ChanOf(x.i).topic \in topics))
R == ScanAll(toks, topics, win.s, win.e)

ScanExact == (fin /\ Legal) =>
  /\ ~R.err
  /\ LET want == SelectSeq(Selected, LAMBDA x : x.t.log # TMAX \/ ~win.dflt) IN      \* deviation: the known finding
     /\ Len(R.out) = Len(want)
     /\ \A i \in DOMAIN want : R.out[i].msg = want[i].t /\ R.out[i].channel = ChanOf(want[i].i)
                               /\ (IF ChanOf(want[i].i).schema = 0 THEN R.out[i].schema = <<>> ELSE R.out[i].schema = <<SchemaTok(ChanOf(want[i].i).schema)>>)
(* the property as stated (no deviation) is violated exactly through the messages at TMAX: witness cfg *)
ScanExactAsStated == (fin /\ Legal) => Len(R.out) = Len(Selected)
(* whatever the stream: what is yielded is a subsequence of the stream's messages, in stream order, each once *)
YieldsAreMessages == fin => \A i \in DOMAIN R.out : R.out[i].msg.k = "Message" /\ R.out[i].channel.id = R.out[i].msg.ch
=============================================================================
