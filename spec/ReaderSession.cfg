SPECIFICATION Spec
CONSTANTS
  NChunks = 3
  MaxOps = 4
INVARIANTS InfoStable AccessStable IndexedStable FirstStable ScanSuffix
CHECK_DEADLOCK FALSE
