SPECIFICATION Spec
CONSTANTS
  NChunks = 3
  MaxOps = 4
INVARIANTS InfoStable IndexedStable FirstStable ScanSuffix
CHECK_DEADLOCK FALSE
