#!/bin/bash
# Runs every claimed check (quick tier by default) against /repo and reports exit codes.
cd "$(dirname "$0")/.."
TIER=${1:-quick}
rc=0
for p in $(python3 -c "import json;print(' '.join(c['property_id'] for c in json.load(open('MANIFEST.json'))['checks']))"); do
  s=$(date +%s)
  ./check $p --tier $TIER > /tmp/runall-$p.log 2>&1
  r=$?
  echo "$p rc=$r $(( $(date +%s) - s ))s $(grep -E "^$p $TIER:" /tmp/runall-$p.log | cut -c1-160)"
  grep -E "^VIOLATION|^MACHINERY|^MODEL-DRIFT" /tmp/runall-$p.log | head -3
  [ $r -ne 0 ] && rc=1
done
exit $rc
