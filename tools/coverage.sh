#!/bin/bash
# usage: coverage.sh [check ids...]   Statement coverage of the repository's Go packages (go/mcap, go/ros, go/ros/ros1msg) reached
# by the drivers of the given checks (default: all, quick tier).  A map of what the conformance binding exercises, not a
# verdict: prints per-function coverage of everything below 100 % and the total.  Scratch data under /tmp is removed.
cd "$(dirname "$0")/.."
export VERIF_COVER=1 GOCOVERDIR=$(mktemp -d /tmp/verif-cov.XXXXXX)
ids=${@:-$(python3 -c "import json;print(' '.join(c['property_id'] for c in json.load(open('MANIFEST.json'))['checks']))")}
for p in $ids; do
  ./check $p > $GOCOVERDIR/$p.log 2>&1; echo "$p rc=$? $(grep -E "^$p quick:" $GOCOVERDIR/$p.log | cut -c1-120)"
done
export GOFLAGS=-mod=mod GOPROXY=off GOSUMDB=off GOTOOLCHAIN=local
go tool covdata func -i=$GOCOVERDIR 2>/dev/null | grep -v "100.0%" | grep -v verifharness | sort -t$'\t' -k3 -n | awk '{print}' > /tmp/verif-last-coverage-func.txt
head -200 /tmp/verif-last-coverage-func.txt
go tool covdata percent -i=$GOCOVERDIR
rm -rf $GOCOVERDIR
