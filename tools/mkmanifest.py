#!/usr/bin/env python3
"""Regenerates /verif/MANIFEST.json from the table below (run after adding a check)."""
import json, os
V = os.path.dirname(os.path.dirname(os.path.abspath(__file__)))
BASE = ("Trusted: TLC/SANY, refmcap (independent codec written from the MCAP spec), the abstraction alpha (byte-equality interning, order embedding "
        "of timestamps, token equality), hash/crc32 and the zstd/lz4 codecs. Exhaustive claims hold for the stated small constants / per generated "
        "file; larger inputs are seeded samples. Verdicts only from real-code executions rejected by the TLA+ property layer.")
T_W = "TLA+ property layer (MCAPFormat.tla) + writer model (Writer/WriterMC.tla) model-checked by TLC; TLC trace validation of the real writer and readers (TraceWriter.tla, drift via TraceWriterImpl.tla); TLC -simulate behaviours replayed into the real writer"
T_R = "TLA+ lexer model (Lexer/LexerMC.tla) model-checked by TLC against ReadProps.tla; exhaustive cut / fault / bit-flip enumeration on real files judged by TLC trace validation (TraceRead.tla)"
T_I = "TLA+ iterator model (IndexedRead.tla) model-checked by TLC against IndexProps.tla over every small file x order x topic set x window; TLC trace validation of the real reader on the enumerated file space, random large files and writer-produced files (TraceIndexed.tla); model replay against recorded reads (IndexedReplay.tla, drift)"
T_L = "TLA+ layout generator (Layout.tla: TLC enumerates every spec-legal layout / insertion set and checks order-independence of the summary-pass model); layouts built by the reference encoder and read by the real readers; TLC trace validation (TraceWriter.tla layout judge + TraceIndexed.tla)"
T_C = "TLA+ property layer (MCAPFormat.tla) judging the regenerated reference binaries and the Go write tool's outputs by TLC trace validation; reference encoder pinned by 416 LFS sha256 hashes; finite matrix enumerated completely"
T_X = "shared TLA+ property layer (content model of TraceWriter.tla, IndexProps via TraceIndexed.tla) judging, by TLC trace validation, what the Python readers return for Go-written files and what every Go read path returns for Python-written files"
T_H = "TLA+ model of every length/size/offset consumer over anchored integers (Hostile.tla) checked by TLC (incl. pre-fix witness); structured-mutation plans and random bytes run in isolated child processes; TLC trace validation of every outcome (TraceHostile.tla)"
T_M = "TLA+ model of definition resolution (Ros1Msg.tla: Resolve + explicit-stack resolver machine) model-checked by TLC for termination, bounded stack and agreement on all graphs of a small scope; TLC trace validation of the real parser on rendered random graphs (TraceRos.tla); hostile definitions in isolated workers"
CHECKS = [
 ("C19", "model_checking", T_M, "6 C19", "Seeded random type graphs rendered in varied concrete syntax and parsed by the real parser, the expected tree recomputed by TLC from the graph; cyclic, bracket-mangled, random and mutated definitions in isolated workers with stack cap and deadline; the resolver model terminates with a bounded stack on all 73 000 small graphs."),
 ("C10", "model_checking", T_H, "6 C10", "About 10^5 (quick) structured mutations, truncations, splices and random inputs x 13 public entry points in isolated workers (12 GiB address-space cap, 20 s deadline with confirmation run, allocation accounting); TLC judges outcome class and allocation ceiling per case; the anchored-integer model proves each guarded consumer safe for every magnitude and shows the unguarded (pre-fix) versions unsafe."),
 ("C16", "model_checking", T_X, "6 C16", "Go writer (no compression, random configurations) -> Python NonSeekingReader and SeekingReader (CRC validation, 3 orders); Python Writer over its options -> Go lexer, scan, indexed reads in all orders, Info; one abstract content judged by TLC in both directions."),
 ("C11", "model_checking", T_L, "6 C11", "Every subset of 10 insertion positions x padding, enumerated by TLC from Layout.tla, built by the reference encoder for seeded contents and read by lexer, scan, indexed reads and Info; plus the 208 padded conformance binaries; TLC judges every report against the logical content."),
 ("C12", "model_checking", T_L, "6 C12", "All legal arrangements of all subsets of the summary groups and all data layouts (chunk partitions, compressions, definition placement) enumerated by TLC, built by the reference encoder and read by every Go read path; TLC judges content and index-based reads per layout; the summary-pass model is checked order-independent (the pre-fix pass is kept as a violated witness)."),
 ("C17", "model_checking", T_C, "6 C17", "All 416 vectors: reference binaries regenerated and hash-pinned, judged by the TLA+ format spec, read by lexer/scan and by test-read-conformance (streamed + indexed), written by test-write-conformance (208 non-padded, byte-identical), tool outputs judged by the same spec."),
 ("C02", "model_checking", T_I, "6 C02", "Index-based vs scan reads, Info, random access to every indexed attachment/metadata record and the metadata callback on files written by the real writer in random configurations, judged by TLC (IndexedAllowed: exact, fallback or error - never silently fewer); iterator model checked exhaustively."),
 ("C03", "model_checking", T_I, "6 C03", "Every file of the enumerated scope (2 chunks x <=2 messages x 4 times x 2 channels; thorough adds 3-chunk scopes) and random large files read in log / reverse-log order twice; TLC judges exactly-once, sortedness, same-chunk ties, repeatability; the iterator model satisfies the same properties for every file of its scope (TLC exhaustive, incl. the key lemma YieldSafe and termination)."),
 ("C04", "model_checking", T_I, "6 C04", "Topic sets x windows (bounds from message times, chunk bounds, 0, 2^64-1) x every API form x indexed/scan x 3 orders on the same file space; TLC recomputes the selection (SelectExact); iterator model checked exhaustively over all windows and topic sets of its scope."),
 ("C20", "model_checking", T_I, "6 C20", "Slot bound (slots <= max overlap depth, 1 in file order) and buffer bound from the verif accessor after every NextInto on files of 10..1000 chunks with overlap depth 1..8; the model proves the bound for every file of its scope and predicts the exact slot count of the real iterator; attachments of 1 KiB..256 MiB streamed through writer and lexer with measured heap."),
 ("C01", "model_checking", T_W, "6 C01", "Every trace of the real writer + lexer + scan iterator on TLC-generated behaviours, seeded random workloads and the full 1024-flag matrix is validated by TLC against the property-layer content model; the writer model is model-checked exhaustively on small workloads."),
 ("C05", "model_checking", T_W, "6 C05", "Every record of every produced file is decoded by an independent decoder; every position/length/offset/time is recomputed in TLA+ (WellFormed, IndexExact) by TLC trace validation; the writer model is checked exhaustively against the same operators and predicts the byte layout of every real file (zero drift)."),
 ("C06", "model_checking", T_W, "6 C06", "The CRC ranges are named by the TLA+ spec; the harness hashes the logged ranges and TLC checks range equality and verdicts for every CRC field of every produced file; the writer model carries the CRC reset points and is checked exhaustively."),
 ("C08", "model_checking", T_W, "6 C08", "Statistics record of every produced file compared by TLC with the aggregates of the logged calls (StatsExact); writer model with both writers of the time range checked exhaustively (also after every call)."),
 ("C07", "fault_enumeration", T_R, "6 C07", "Every single-bit flip of every chunk payload byte and attachment byte of seeded files (plus multi-byte overwrites / swaps), judged by TLC against NoSilentCorruption / AttachmentExposed; lexer validation model checked exhaustively over damaged-chunk positions and damage effects."),
 ("C09", "fault_enumeration", T_R, "6 C09", "Every cut position of seeded files through lexer (validation on/off) and scan iterator, judged by TLC against PrefixRead (prefix, ending, completeness); byte-accurate lexer model checked for every cut of 5 abstract files incl. termination."),
 ("C14", "fault_enumeration", T_W, "6 C14", "Every destination write index x fault kind x permanence for seeded workloads, and misbehaving attachment sources, judged by TLC against FaultReported; the writer model predicts the number of destination writes per call (compared after every call)."),
 ("C15", "fault_enumeration", T_R, "6 C15", "4 fragmentation policies x 5 read paths and an injected non-EOF error at every byte of seeded files, judged by TLC against Fragmented / SourceFault; lexer model checked for every fault position."),
]
checks = []
for pid, cat, tech, ref, text in CHECKS:
    checks.append({"property_id": pid, "quick_cmd": "./check %s --tier quick" % pid, "thorough_cmd": "./check %s --tier thorough" % pid,
                   "evidence_file": "/verif/evidence/%s.json" % pid, "replay_cmd_template": "./check %s --replay {path}" % pid, "engine": "tla-trace",
                   "level_claimed": {"category": cat, "text": text, "design_ref": ref}, "level_note": BASE, "technique": tech})
claimed = {c["property_id"] for c in checks}
NA_REASON = {}
na = [{"property_id": "C%02d" % i, "reason": NA_REASON.get("C%02d" % i, "check not built yet at this commit (planned, DESIGN.md section 6); no claim is made")}
      for i in range(1, 21) if "C%02d" % i not in claimed]
hooks_commits = ["c82d278"]
m = {"version": 1, "setup_cmd": "./tools/setup.sh",
     "hooks": {"guard": "verif", "enable": "go build -tags verif (./check builds the harness with the tag against /repo's working tree)",
               "baseline_off_cmd": "/verif/tools/baseline_off.sh", "source_commits": hooks_commits, "add_only": True},
     "engines": [{"name": "tla-trace", "path": "/verif/check", "serves_properties": sorted(claimed),
                  "kind_free_text": "TLC model checking of TLA+ implementation models against a TLA+ property layer + TLC trace validation of executions of the real Go code (harness in /verif/harness, specs in /verif/spec)"}],
     "checks": checks, "not_applicable": na,
     "notes": "See DESIGN.md. known_findings.json lists genuine defects (known / fixed). Exit 2 = machinery error."}
json.dump(m, open(os.path.join(V, "MANIFEST.json"), "w"), indent=1)
print("claimed", sorted(claimed))
