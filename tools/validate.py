#!/opt/veriftools/pyvenv/bin/python
import json, sys, glob, jsonschema
jsonschema.validate(json.load(open('/verif/MANIFEST.json')), json.load(open('/root/.vp/MANIFEST.schema.json')))
es = json.load(open('/root/.vp/EVIDENCE.schema.json'))
for f in sorted(glob.glob('/verif/evidence/*.json')):
    jsonschema.validate(json.load(open(f)), es)
ps = json.load(open('/root/.vp/PROPERTIES.schema.json'))
m = json.load(open('/verif/MANIFEST.json'))
ids = [json.loads(l)['id'] for l in open('/verif/properties.jsonl')]
claimed = [c['property_id'] for c in m['checks']]
na = [c['property_id'] for c in m.get('not_applicable', [])]
assert sorted(claimed + na) == sorted(ids), (sorted(claimed+na), ids)
print('manifest + %d evidence files valid; claimed=%d na=%d' % (len(glob.glob('/verif/evidence/*.json')), len(claimed), len(na)))
