#!/bin/bash
# Runs the repository's stable baseline (195 tests) with the `verif` build tag OFF
# and checks that every stable test still passes.  Exit 0 iff all 195 pass.
set -u
OUT=$(mktemp /tmp/baseline.XXXXXX.json)
for m in go/mcap go/ros; do
  (cd ${VERIF_REPO:-/repo}/$m && GOFLAGS= go test -json -vet=off -count=1 -timeout 25m ./... 2>&1) >> $OUT
done
python3 - "$OUT" <<'PY'
import json,sys
base=json.load(open('/root/.vp/BASELINE.json'))['stable_pass']
st={}
for line in open(sys.argv[1]):
    try: e=json.loads(line)
    except Exception: continue
    if e.get('Test') and e.get('Action') in ('pass','fail','skip'):
        st[e['Package']+'::'+e['Test']]=e['Action']
bad=[t for t in base if st.get(t)!='pass']
print(f"baseline: {len(base)-len(bad)}/{len(base)} stable tests pass (guard off)")
for t in bad: print("NOT PASSING:",t,st.get(t))
sys.exit(1 if bad else 0)
PY
rc=$?
rm -f $OUT
exit $rc
