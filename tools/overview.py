#!/usr/bin/env python3
"""Prints the per-property overview table of DESIGN.md section 6 from the evidence files of the last runs."""
import json, glob, os
V = os.path.dirname(os.path.dirname(os.path.abspath(__file__)))
print("| id | tier | model states (TLC) | real-code executions judged | distinct non-trivial | impl-layer drift | known-finding hits | wall s |")
print("|---|---|---|---|---|---|---|---|")
for p in sorted(glob.glob(os.path.join(V, "evidence", "C*.json"))):
    e = json.load(open(p)); c = e["coverage"]
    print("| %s | %s | %d | %d | %d | %s | %d | %.0f |" % (e["property_id"], e["tier"], c.get("states", 0), c.get("evaluations", 0), c.get("distinct_nontrivial", 0),
          c.get("impl_layer_drift", "-"), sum(c.get("known_findings_hit", {}).values()), e.get("wall_s", 0)))
