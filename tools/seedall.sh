#!/bin/bash
# usage: seedall.sh [parallel] [pattern]   Detection regression: every archived seeded change (seeded/*/patch.diff) is applied to a
# scratch worktree of /repo's HEAD under /tmp and the check of its property is run against it; each must report a VIOLATION.
# Worktrees are removed afterwards.  Prints one line per seed; exit 1 if any seed goes undetected.
set -u
PAR=${1:-3}; PAT=${2:-}
V=/verif
one() {
  d=$1; id=$(basename $d)
  prop=$(python3 -c "import json;print(json.load(open('$d/meta.json'))['property'])")
  wt=$(mktemp -d /tmp/seedall-$id.XXXXXX)
  rmdir $wt; git -C /repo worktree add --detach $wt HEAD >/dev/null 2>&1 || { echo "$id: worktree failed"; return; }
  # older patches were cut against a tree that later fix: commits changed: fall back to a three-way merge
  if ! git -C $wt apply $d/patch.diff 2>/dev/null && ! git -C $wt apply --3way $d/patch.diff >/dev/null 2>&1; then echo "$id: STALE PATCH (does not apply to /repo HEAD any more, not even three-way)"; git -C /repo worktree remove --force $wt; return; fi
  out=$(cd $V && VERIF_REPO=$wt timeout 5400 ./check $prop 2>&1)
  n=$(echo "$out" | grep -c '^VIOLATION')
  mach=$(echo "$out" | grep -c '^MACHINERY')
  git -C /repo worktree remove --force $wt >/dev/null 2>&1; rm -rf $wt
  if [ $n -gt 0 ]; then echo "$id: CAUGHT ($n violation lines) $(echo "$out" | grep '^VIOLATION' | head -1 | sed 's/.*(\(.*\)/(\1/' | cut -c1-100)"; else echo "$id: NOT CAUGHT (machinery errors: $mach)"; fi
}
export -f one; export V
ls -d $V/seeded/*$PAT*/ | sed 's:/$::' | xargs -P $PAR -I{} bash -c 'one {}' | tee /tmp/seedall.out
! grep -q "NOT CAUGHT" /tmp/seedall.out
