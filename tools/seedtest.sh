#!/bin/bash
# usage: seedtest.sh <Cxx> <worktree with patch applied and seeded/ deliverables> [check ids...]
# Confirms a seeded change: (1) existing suite passes with it, (2) demo fails with it,
# (3) demo passes without it; then runs the given checks against the changed tree.
set -u
P=$1; WT=$2; shift 2
cd $WT
S=$WT/seeded
[ -f $S/patch.diff ] || { echo "no patch"; exit 2; }
DEMO=$(ls $S | grep -E '_test.go$' | head -1)
DEST=go/mcap
grep -q '"go/ros' $S/meta.json 2>/dev/null && grep -q ros1msg $S/meta.json && DEST=go/ros/ros1msg
echo "== $P: baseline with patch"
VERIF_REPO=$WT /verif/tools/baseline_off.sh | tail -3
echo "== demo with patch (must FAIL)"
cp $S/$DEMO $DEST/zz_seeded_demo_test.go
(cd $DEST && go test -count=1 -run TestSeededDemo . 2>&1 | tail -3)
echo "== demo without patch (must PASS)"
git apply -R $S/patch.diff && (cd $DEST && go test -count=1 -run TestSeededDemo . 2>&1 | tail -3); git apply $S/patch.diff
rm -f $DEST/zz_seeded_demo_test.go
for c in "$@"; do
  echo "== check $c against patched tree"
  (cd /verif && VERIF_REPO=$WT ./check $c 2>&1 | grep -v "^Parsing\|^Semantic\|^Linting" | grep -E "VIOLATION|KNOWN|MACHINERY|quick:|DRIFT" | cut -c1-300 | head -8)
done
