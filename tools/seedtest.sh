#!/bin/bash
# usage: seedtest.sh <Cxx> <worktree with patch applied and seeded/ deliverables> [check ids...]
# Confirms a seeded change: (1) existing suite passes with it, (2) demo fails with it,
# (3) demo passes without it; then runs the given checks against the changed tree.
# Round 2 deliverables carry seeded/demo.sh (run from the worktree root, exit 0 = property holds);
# round 1 deliverables carry a *_test.go with TestSeededDemo that is copied into go/mcap (or go/ros/ros1msg).
set -u
P=$1; WT=$2; shift 2
cd $WT
export GOPROXY=off GOSUMDB=off GOTOOLCHAIN=local
S=$WT/seeded
[ -f $S/patch.diff ] || { echo "no patch"; exit 2; }
rundemo() {
  if [ -f $S/demo.sh ]; then
    (cd $WT && timeout 1200 bash seeded/demo.sh 2>&1 | tail -4; exit ${PIPESTATUS[0]})
    return $?
  fi
  DEMO=$(ls $S | grep -E '_test.go$' | head -1)
  DEST=go/mcap
  grep -q '"go/ros' $S/meta.json 2>/dev/null && grep -q ros1msg $S/meta.json && DEST=go/ros/ros1msg
  cp $S/$DEMO $DEST/zz_seeded_demo_test.go
  (cd $DEST && go test -count=1 -run TestSeededDemo . 2>&1 | tail -3; exit ${PIPESTATUS[0]}); rc=$?
  rm -f $DEST/zz_seeded_demo_test.go
  return $rc
}
echo "== $P: baseline with patch"
VERIF_REPO=$WT /verif/tools/baseline_off.sh | tail -3
echo "== demo with patch (must FAIL)"
rundemo; echo "demo rc with patch: $?"
echo "== demo without patch (must PASS)"
git apply -R $S/patch.diff && { rundemo; echo "demo rc without patch: $?"; }; git apply $S/patch.diff
git status --short | grep -v '^?? seeded/' | head -5
for c in "$@"; do
  echo "== check $c against patched tree"
  (cd ${VERIF_CHECK_DIR:-/verif} && VERIF_REPO=$WT ./check $c > /tmp/seedtest-$P-$c.out 2>&1; grep -E "^VIOLATION" /tmp/seedtest-$P-$c.out | cut -c1-300 | head -6; grep -cE "^VIOLATION" /tmp/seedtest-$P-$c.out; grep -E "MACHINERY|quick:|DRIFT|^\.\.\." /tmp/seedtest-$P-$c.out | cut -c1-300 | head -6; rm -f /tmp/seedtest-$P-$c.out)
done
