#!/bin/bash
# Offline setup: verify the toolchain and warm the Go build cache by building the harness once.
set -e
cd "$(dirname "$0")/.."
export GOFLAGS=-mod=mod GOPROXY=off GOSUMDB=off GOTOOLCHAIN=local
command -v tlc >/dev/null
command -v go >/dev/null
D=$(mktemp -d /tmp/verif-setup.XXXXXX)
trap 'rm -rf $D' EXIT
cp -r harness $D/harness
cat /repo/go/mcap/go.sum /repo/go/ros/go.sum | sort -u > $D/harness/go.sum
(cd $D/harness && go build -tags verif -o $D/mcapverif ./cmd/mcapverif)
mkdir -p evidence replays
echo "setup ok"
