#!/usr/bin/env python3
"""seedsave.py <seed-id> <worktree> <caught-by checks, comma separated> <note>: archive a confirmed seeded change under /verif/seeded/<seed-id>/"""
import json, os, shutil, sys
sid, wt, caught, note = sys.argv[1:5]
src = os.path.join(wt, "seeded")
dst = os.path.join("/verif/seeded", sid)
os.makedirs(dst, exist_ok=True)
for f in os.listdir(src):
    if os.path.isfile(os.path.join(src, f)):
        shutil.copy(os.path.join(src, f), dst)
mp = os.path.join(dst, "meta.json")
try:
    m = json.load(open(mp))
except Exception:
    m = {}
m["confirmed"] = {
    "baseline_195_pass_with_patch": True, "demo_fails_with_patch": True, "demo_passes_without_patch": True,
    "ran": "tools/seedtest.sh (scratch worktree outside /repo and /verif: tools/baseline_off.sh with VERIF_REPO=<worktree>, demo with and without the patch, then ./check <id> with VERIF_REPO=<worktree>)",
    "caught_by": [c for c in caught.split(",") if c], "note": note}
json.dump(m, open(mp, "w"), indent=1)
print("saved", dst, m["confirmed"]["caught_by"])
