#!/bin/bash
# usage: tlcrun.sh <spec.tla> <cfg> <trace> [extra tlc args]
set -u
SPEC=$1; CFG=$2; TR=$3; shift 3
D=$(mktemp -d /tmp/tlcrun.XXXXXX)
cp /verif/spec/*.tla /verif/spec/*.cfg $D/
cd $D
TRACE=$TR timeout 600 tlc -workers 1 -metadir $D/meta -config $CFG $SPEC "$@" > $D/out.txt 2>&1
rc=$?
cat $D/out.txt
rm -rf $D
exit $rc
