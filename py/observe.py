#!/usr/bin/env python3
"""Reads MCAP files with the repository's Python readers and prints what they return (concrete values).

usage: observe.py <repo> <jobs.json> <out.ndjson>
jobs.json: [{"id":..., "path":..., "seek": bool, "seek_att": bool, "seek_md": bool}]
Every bytes value is base64, every integer a decimal string.
"""
import base64
import json
import sys
import traceback

repo, jobs_path, out_path = sys.argv[1:4]
sys.path.insert(0, repo + "/python/mcap")
from mcap.reader import NonSeekingReader, SeekingReader  # noqa: E402


def b64(b):
    if isinstance(b, str):
        b = b.encode("utf-8")
    return base64.b64encode(bytes(b)).decode("ascii")


def md(m):
    return [[b64(k), b64(v)] for k, v in m.items()]


def schema_ev(s):
    if s is None:
        return None
    return {"id": str(s.id), "name": b64(s.name), "enc": b64(s.encoding), "data": b64(s.data)}


def channel_ev(c):
    return {"id": str(c.id), "schema": str(c.schema_id), "topic": b64(c.topic), "menc": b64(c.message_encoding), "md": md(c.metadata)}


def message_ev(m):
    return {"ch": str(m.channel_id), "seq": str(m.sequence), "log": str(m.log_time), "pub": str(m.publish_time), "data": b64(m.data)}


def att_ev(a):
    return {"log": str(a.log_time), "create": str(a.create_time), "name": b64(a.name), "media": b64(a.media_type), "data": b64(a.data)}


def stats_ev(st):
    if st is None:
        return None
    return {"msgs": str(st.message_count), "schemas": str(st.schema_count), "channels": str(st.channel_count), "atts": str(st.attachment_count),
            "mds": str(st.metadata_count), "chunks": str(st.chunk_count), "start": str(st.message_start_time), "end": str(st.message_end_time),
            "per": [[str(k), str(v)] for k, v in st.channel_message_counts.items()]}


def observe(make, via, order, want_att, want_md):
    ev = {"via": via, "order": order, "end": "ok", "why": "", "msgs": [], "atts": [], "mds": [], "header": None, "stats": None, "hasatts": want_att, "hasmds": want_md}
    try:
        r = make()
        h = r.get_header()
        ev["header"] = {"profile": b64(h.profile), "library": b64(h.library)}
        r = make()
        kw = {"log_time_order": order != "file"}
        if order == "rlog":
            kw["reverse"] = True
        for s, c, m in r.iter_messages(**kw):
            ev["msgs"].append({"schema": schema_ev(s), "channel": channel_ev(c), "msg": message_ev(m)})
        if order == "file":
            if want_att:
                r = make()
                ev["atts"] = [att_ev(a) for a in r.iter_attachments()]
            if want_md:
                r = make()
                ev["mds"] = [{"name": b64(x.name), "md": md(x.metadata)} for x in r.iter_metadata()]
            r = make()
            summ = r.get_summary()
            ev["stats"] = stats_ev(summ.statistics) if summ is not None else None
    except Exception as e:  # noqa: BLE001
        ev["end"] = "error"
        ev["why"] = "%s: %s" % (type(e).__name__, str(e)[:200])
        ev["tb"] = traceback.format_exc()[-400:]
    return ev


def raw_pipe(path):
    """The file's bytes arriving through a raw (unbuffered) pipe: reads return at most what the pipe holds (64 KiB on
    Linux), as for sys.stdin.buffer.raw or a socket opened without buffering."""
    import os
    import threading
    r, w = os.pipe()

    def feed():
        try:
            with open(path, "rb") as f, os.fdopen(w, "wb", 0) as wf:
                while True:
                    b = f.read(1 << 20)
                    if not b:
                        break
                    wf.write(b)
        except BrokenPipeError:
            pass
    threading.Thread(target=feed, daemon=True).start()
    return os.fdopen(r, "rb", 0)


with open(out_path, "w") as out:
    for job in json.load(open(jobs_path)):
        path = job["path"]
        res = {"id": job["id"], "reads": []}
        res["reads"].append(observe(lambda: NonSeekingReader(open(path, "rb"), validate_crcs=True), "stream", "file", True, True))
        if job.get("rawpipe"):
            res["reads"].append(observe(lambda: NonSeekingReader(raw_pipe(path), validate_crcs=True), "stream", "file", True, True))
        if job.get("seek"):
            for order in ("file", "log", "rlog"):
                res["reads"].append(observe(lambda: SeekingReader(open(path, "rb"), validate_crcs=True), "seek", order, job.get("seek_att", False), job.get("seek_md", False)))
        out.write(json.dumps(res) + "\n")
