#!/usr/bin/env python3
"""Writes MCAP files with the repository's Python writer from workload descriptions.

usage: pywrite.py <repo> <workloads.ndjson> <outdir>
workload: {"id":..., "opts": {...}, "calls": [{"op":..., ...}]} ; bytes base64, integers decimal strings.
"""
import base64
import json
import sys

repo, wl_path, outdir = sys.argv[1:4]
sys.path.insert(0, repo + "/python/mcap")
from mcap.writer import CompressionType, IndexType, Writer  # noqa: E402


def d(s):
    return base64.b64decode(s) if s else b""


def ds(s):
    return d(s).decode("utf-8")


for line in open(wl_path):
    line = line.strip()
    if not line:
        continue
    w = json.loads(line)
    o = w["opts"]
    it = IndexType.NONE
    for name in o.get("index_types", []):
        it |= getattr(IndexType, name)
    status = {"id": w["id"], "ok": True, "why": ""}
    try:
        with open("%s/%s.mcap" % (outdir, w["id"]), "wb") as f:
            wr = Writer(f, chunk_size=int(o["chunk_size"]), compression=CompressionType.NONE, index_types=it,
                        repeat_channels=o["repeat_channels"], repeat_schemas=o["repeat_schemas"], use_chunking=o["use_chunking"],
                        use_statistics=o["use_statistics"], use_summary_offsets=o["use_summary_offsets"], enable_crcs=o["enable_crcs"],
                        enable_data_crcs=o["enable_data_crcs"])
            for c in w["calls"]:
                op = c["op"]
                if op == "header":
                    wr.start(profile=ds(c.get("profile")), library=ds(c.get("library")))
                elif op == "schema":
                    sid = wr.register_schema(name=ds(c.get("name")), encoding=ds(c.get("enc")), data=d(c.get("data")))
                    assert sid == int(c["id"]), "schema id %s != %s" % (sid, c["id"])
                elif op == "channel":
                    cid = wr.register_channel(topic=ds(c.get("topic")), message_encoding=ds(c.get("menc")), schema_id=int(c.get("schema", 0)),
                                              metadata={ds(kv["k"]): ds(kv.get("v")) for kv in c.get("md") or []})
                    assert cid == int(c["id"]), "channel id %s != %s" % (cid, c["id"])
                elif op == "message":
                    wr.add_message(channel_id=int(c["ch"]), log_time=int(c.get("log", 0)), data=d(c.get("data")), publish_time=int(c.get("pub", 0)), sequence=int(c.get("seq", 0)))
                elif op == "attachment":
                    wr.add_attachment(create_time=int(c.get("create", 0)), log_time=int(c.get("log", 0)), name=ds(c.get("name")), media_type=ds(c.get("media")), data=d(c.get("data")))
                elif op == "metadata":
                    wr.add_metadata(name=ds(c.get("name")), data={ds(kv["k"]): ds(kv.get("v")) for kv in c.get("md") or []})
                elif op == "close":
                    wr.finish()
    except Exception as e:  # noqa: BLE001
        status["ok"] = False
        status["why"] = "%s: %s" % (type(e).__name__, str(e)[:300])
    print(json.dumps(status))
