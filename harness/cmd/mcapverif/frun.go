package main

import (
	"bufio"
	"bytes"
	"encoding/json"
	"flag"
	"fmt"
	"os"
	"strings"

	"verifharness/gen"
	"verifharness/run"
	"verifharness/wl"
)

func init() { commands["frun"] = frun }

// frun enumerates destination faults (C14): for every workload, every index k
// of a Write call on the sink is failed once per fault kind; and every
// attachment is written once per misbehaving data source.
func frun(args []string) error {
	fs := flag.NewFlagSet("frun", flag.ExitOnError)
	seed := fs.Int64("seed", 1, "seed")
	n := fs.Int("n", 6, "number of workloads")
	size := fs.Int("size", 8, "data calls per workload")
	out := fs.String("out", "trace.ndjson", "trace output")
	wlout := fs.String("wl", "", "concrete workloads output")
	in := fs.String("in", "", "replay: concrete workload file")
	only := fs.String("only", "", "replay: k=<write index>")
	fs.Parse(args)
	tf, err := os.Create(*out)
	if err != nil {
		return err
	}
	defer tf.Close()
	o := &outFiles{trace: bufio.NewWriterSize(tf, 1<<20)}
	defer o.trace.Flush()
	if *wlout != "" {
		wf, err := os.Create(*wlout)
		if err != nil {
			return err
		}
		defer wf.Close()
		o.wls = bufio.NewWriterSize(wf, 1<<20)
		defer o.wls.Flush()
	}
	var wls []wl.Workload
	if *in != "" {
		b, err := os.ReadFile(*in)
		if err != nil {
			return err
		}
		for _, line := range bytes.Split(b, []byte("\n")) {
			if len(bytes.TrimSpace(line)) == 0 {
				continue
			}
			var w wl.Workload
			if err := json.Unmarshal(line, &w); err != nil {
				return err
			}
			wls = append(wls, w)
		}
	} else {
		g := gen.New(*seed)
		g.NoHuge = true
		for i := 0; i < *n; i++ {
			c := g.Cfg()
			c.Compression = []string{"", "zstd", "lz4", "xor"}[i%4]
			c.Chunked = i%3 != 2
			c.ChunkSize = []int64{1, 60, 150, 1 << 20}[g.R.Intn(4)]
			wls = append(wls, wl.Workload{ID: fmt.Sprintf("sink%d-%d", *seed, i), Cfg: c, Calls: g.Calls(*size, c.ChunkSize)})
		}
		// structured workloads: several channels interleaved inside every chunk, so that each chunk is followed by
		// several message index records (and the summary by several records per group)
		for i, cs := range []int64{150, 400, 1 << 20} {
			for j, comp := range []string{"", "zstd"} {
				c := wl.Cfg{Chunked: true, ChunkSize: cs, Compression: comp, CRC: (i+j)%2 == 0}
				calls := []wl.Call{{Op: "header", Profile: []byte("p")}}
				for ch := 0; ch < 3; ch++ {
					calls = append(calls, wl.Call{Op: "schema", ID: uint16(ch + 1), Name: []byte{byte('a' + ch)}, Enc: []byte("e"), Data: []byte("d")})
					calls = append(calls, wl.Call{Op: "channel", ID: uint16(ch), Schema: uint16(ch + 1), Topic: []byte{'/', byte('a' + ch)}, Menc: []byte("m")})
				}
				for m := 0; m < 10; m++ {
					calls = append(calls, wl.Call{Op: "message", Ch: uint16(m % 3), Seq: uint32(m), Log: uint64(10 + m + int(*seed)), Pub: uint64(m), Data: g.Payload(40)})
					if m == 2 { // an attachment that declares no content: its source is still read (and may misbehave)
						calls = append(calls, wl.Call{Op: "attachment", Log: 2, Name: []byte("empty"), Media: []byte("x")})
					}
					if m == 4 {
						calls = append(calls, wl.Call{Op: "attachment", Log: 3, Name: []byte("att"), Media: []byte("x"), Data: []byte("attachment-data")})
						calls = append(calls, wl.Call{Op: "metadata", Name: []byte("md"), MD: []wl.KV{{K: []byte("k"), V: []byte("v")}}})
					}
				}
				calls = append(calls, wl.Call{Op: "close"})
				wls = append(wls, wl.Workload{ID: fmt.Sprintf("multi%d-%d-%d", *seed, i, j), Cfg: c, Calls: calls})
			}
		}
	}
	for _, w := range wls {
		if o.wls != nil {
			b, _ := json.Marshal(w)
			o.wls.Write(b)
			o.wls.WriteByte('\n')
		}
		// fault-free reference run
		tr := wl.NewTrace()
		var buf bytes.Buffer
		ref := &run.FaultSink{K: -1}
		run.RunWriter(tr, w, ref, &buf)
		full := ref.Accepted
		W := ref.N
		csizes := []any{}
		for _, r := range run.DecodeForTrace(full).Recs {
			if r.Op == 6 && r.OK {
				csizes = append(csizes, r.CSize)
			}
		}
		tr.SetFirst("csizes", csizes)
		tr.Add(wl.Ev{"ev": "SinkRef", "writes": W, "flen": len(full)})
		for k := 0; k < W; k++ {
			if !want(*only, "k", k) {
				continue
			}
			for _, kind := range []string{"err", "short", "full"} {
				for _, perm := range []bool{false, true} {
					sink := &run.FaultSink{K: k, Kind: kind, Permanent: perm}
					sub := wl.NewTrace()
					var b2 bytes.Buffer
					res := run.RunWriter(sub, w, sink, &b2)
					rets := make([]any, len(res.Rets))
					for i, r := range res.Rets {
						rets[i] = r
					}
					newRet := "ok"
					if len(res.Rets) == 0 && len(w.Calls) > 0 {
						newRet = "err" // NewWriter failed: no call was made
					}
					tr.Add(wl.Ev{"ev": "Sink", "k": k, "kind": kind, "permanent": perm, "fired": sink.Fired, "firedCall": sink.FiredCall,
						"newret": newRet, "rets": rets, "accepted": len(sink.AtFail), "isPrefix": bytes.HasPrefix(full, sink.AtFail)})
				}
			}
		}
		// misbehaving attachment sources
		for i, c := range w.Calls {
			if c.Op != "attachment" || *only != "" {
				continue
			}
			variants := []string{"short:1", "long:1", "long:7", "fail:0"}
			if len(c.Data) > 0 {
				variants = append(variants, fmt.Sprintf("short:%d", len(c.Data)), fmt.Sprintf("fail:%d", len(c.Data)/2), fmt.Sprintf("fail:%d", len(c.Data)-1))
			}
			for _, v := range variants {
				if v == "short:1" && len(c.Data) == 0 {
					continue
				}
				if v == fmt.Sprintf("fail:%d", len(c.Data)) {
					continue
				}
				w2 := w
				w2.Calls = append([]wl.Call{}, w.Calls[:i+1]...)
				w2.Calls[i].Src = v
				sub := wl.NewTrace()
				var b2 bytes.Buffer
				res := run.RunWriter(sub, w2, nil, &b2)
				// for the implementation-layer model: the attachment's arguments, the source behaviour in fields, and the writer's
				// public state after the failing call (how far the output position moved, how many destination writes were made)
				var skind string
				var sk int
				fmt.Sscanf(strings.Replace(v, ":", " ", 1), "%s %d", &skind, &sk)
				a := run.CallEv(i, c)
				delete(a, "ev")
				tr.Add(wl.Ev{"ev": "AttSrc", "call": i + 1, "src": v, "skind": skind, "sk": sk, "dsize": len(c.Data), "ret": res.Rets[i], "a": map[string]any(a), "st": res.States[i]})
			}
		}
		tr.Add(wl.Ev{"ev": "End"})
		if err := o.emit(tr); err != nil {
			return err
		}
	}
	return nil
}
