package main

import (
	"bufio"
	"bytes"
	"crypto/sha256"
	"encoding/hex"
	"encoding/json"
	"flag"
	"fmt"
	"math/rand"
	"os"
	"os/exec"
	"runtime"
	"strings"
	"sync"

	"github.com/foxglove/mcap/go/mcap"

	"verifharness/gen"
	"verifharness/run"
	"verifharness/wl"
)

func init() { commands["drun"] = drun }

func writeAll(w wl.Workload) []byte {
	var buf bytes.Buffer
	writer, err := mcap.NewWriter(&buf, run.Options(w.Cfg))
	if err != nil {
		return []byte("ERR:" + err.Error())
	}
	for _, c := range w.Calls {
		run.Apply(writer, c, w.Cfg.CRC)
	}
	return buf.Bytes()
}

// uniqueKeys keeps the first entry of every key: a list with a repeated key is not one logical map (the value that
// wins would depend on the insertion order, which is exactly what is being varied).
func uniqueKeys(md []wl.KV) []wl.KV {
	seen := map[string]bool{}
	var out []wl.KV
	for _, kv := range md {
		if !seen[string(kv.K)] {
			seen[string(kv.K)] = true
			out = append(out, kv)
		}
	}
	return out
}

func digest(b []byte) string { s := sha256.Sum256(b); return hex.EncodeToString(s[:8]) }

// shuffleMaps returns the workload with every map argument listed in a different insertion order.
func shuffleMaps(w wl.Workload, r *rand.Rand) wl.Workload {
	out := w
	out.Calls = append([]wl.Call{}, w.Calls...)
	for i := range out.Calls {
		if len(out.Calls[i].MD) > 1 {
			md := append([]wl.KV{}, out.Calls[i].MD...)
			r.Shuffle(len(md), func(a, b int) { md[a], md[b] = md[b], md[a] })
			out.Calls[i].MD = md
		}
	}
	return out
}

func readAll(b []byte) string {
	lr := run.LexAll(bytes.NewReader(b), run.LexOpts{Validate: true, Attachments: true, AttCRC: true})
	return fmt.Sprintf("%d/%s", len(lr.Toks), lr.End)
}

// abstractWorkload mirrors W1, W2, W3 of InstancesMC.tla (6, 5 and 2 calls) with seeded concrete values.
func abstractWorkload(n int, g *gen.G, id string) wl.Workload {
	cfg := wl.Cfg{Chunked: true, ChunkSize: 40, CRC: true, Compression: []string{"", "zstd", "lz4"}[g.R.Intn(3)]}
	md := g.Map()
	for len(md) < 8 {
		md = uniqueKeys(append(md, g.Map()...))
		md = append(md, wl.KV{K: []byte(fmt.Sprintf("key-%d", len(md))), V: g.Str()})
	}
	var calls []wl.Call
	switch n {
	case 6:
		calls = []wl.Call{{Op: "header", Profile: g.Str()}, {Op: "schema", ID: 1, Name: g.Str(), Enc: g.Str(), Data: g.Payload(0)},
			{Op: "channel", ID: 0, Schema: 1, Topic: g.Str(), Menc: g.Str(), MD: md}, {Op: "message", Ch: 0, Seq: 1, Log: 1, Data: g.Payload(40)},
			{Op: "message", Ch: 0, Seq: 2, Log: 0, Data: g.Payload(40)}, {Op: "close"}}
	case 5:
		calls = []wl.Call{{Op: "header"}, {Op: "channel", ID: 1, Topic: g.Str(), Menc: g.Str()}, {Op: "message", Ch: 1, Seq: 1, Log: 2, Data: g.Payload(40)},
			{Op: "metadata", Name: g.Str(), MD: md}, {Op: "close"}}
	default:
		calls = []wl.Call{{Op: "header"}, {Op: "close"}}
	}
	return wl.Workload{ID: id, Cfg: cfg, Calls: calls}
}

// drun: determinism of the writer (C13).
func drun(args []string) error {
	fs := flag.NewFlagSet("drun", flag.ExitOnError)
	seed := fs.Int64("seed", 1, "seed")
	n := fs.Int("n", 60, "number of workloads")
	scheds := fs.String("scheds", "", "interleavings exported by TLC from Instances.tla (ndjson)")
	raceBin := fs.String("racebin", "", "harness binary built with -race")
	out := fs.String("out", "trace.ndjson", "trace output")
	mode := fs.String("mode", "all", "all | race (inside the -race binary)")
	fs.Parse(args)
	g := gen.New(*seed)
	g.NoHuge = true
	if *mode == "race" {
		// 16 goroutines with independent writers and readers at once; the race detector reports to stderr
		var wg sync.WaitGroup
		bad := make([]bool, 16)
		wls := make([]wl.Workload, 16)
		for i := range wls {
			wls[i] = g.Workload(fmt.Sprintf("race%d", i), 8)
			// zstd encoders start one goroutine per CPU each and are very slow under the race detector: two of the 16 use zstd
			wls[i].Cfg.Compression = []string{"", "lz4", "", "lz4", "zstd", "", "lz4", ""}[i%8]
		}
		solo := make([]string, 16)
		for i := range wls {
			solo[i] = digest(writeAll(wls[i]))
		}
		for i := 0; i < 16; i++ {
			wg.Add(1)
			go func(i int) {
				defer wg.Done()
				for k := 0; k < 3; k++ {
					b := writeAll(wls[i])
					if digest(b) != solo[i] {
						bad[i] = true
					}
					readAll(b)
					run.Iterate(bytes.NewReader(b), run.IterOpts{Order: "log"})
				}
			}(i)
		}
		wg.Wait()
		nbad := 0
		for _, b := range bad {
			if b {
				nbad++
			}
		}
		fmt.Printf("RACE-RUN differing=%d\n", nbad)
		return nil
	}
	tf, err := os.Create(*out)
	if err != nil {
		return err
	}
	defer tf.Close()
	o := &outFiles{trace: bufio.NewWriterSize(tf, 1<<20)}
	defer o.trace.Flush()
	tr := wl.NewTrace()
	tr.Add(wl.Ev{"ev": "Run", "id": "determinism", "cfg": map[string]any{"external": "determinism"}, "lib": wl.Blob(""), "csizes": []any{}})
	r := rand.New(rand.NewSource(*seed))
	// (a) repetitions, map insertion orders, GOMAXPROCS
	for i := 0; i < *n; i++ {
		w := g.Workload(fmt.Sprintf("det%d-%d", *seed, i), 14)
		if w.Cfg.Compression == "xor" {
			w.Cfg.Compression = []string{"zstd", "lz4"}[i%2]
		}
		// make sure some map has many keys
		for k := range w.Calls {
			if (w.Calls[k].Op == "metadata" || w.Calls[k].Op == "channel") && len(w.Calls[k].MD) < 8 && r.Intn(2) == 0 {
				w.Calls[k].MD = uniqueKeys(append(w.Calls[k].MD, g.Map()...))
			}
		}
		ref := digest(writeAll(w))
		same := true
		for k := 0; k < 4; k++ {
			if digest(writeAll(shuffleMaps(w, r))) != ref {
				same = false
			}
		}
		tr.Add(wl.Ev{"ev": "Det", "kind": "repeat+maporder", "id": w.ID, "runs": 5, "same": same})
		prev := runtime.GOMAXPROCS(0)
		sameP := true
		for _, p := range []int{1, 2, 4, 16} {
			runtime.GOMAXPROCS(p)
			if digest(writeAll(w)) != ref {
				sameP = false
			}
		}
		runtime.GOMAXPROCS(prev)
		tr.Add(wl.Ev{"ev": "Det", "kind": "gomaxprocs", "id": w.ID, "runs": 4, "same": sameP})
	}
	// (b) TLC-generated interleavings of 3 instances at call granularity (plus a reader running between the steps)
	if *scheds != "" {
		b, err := os.ReadFile(*scheds)
		if err != nil {
			return err
		}
		for li, line := range bytes.Split(b, []byte("\n")) {
			if len(bytes.TrimSpace(line)) == 0 {
				continue
			}
			var s struct {
				Sched []int `json:"sched"`
				Lens  []int `json:"lens"`
				Share []int `json:"share"`
			}
			if err := json.Unmarshal(line, &s); err != nil {
				return err
			}
			k := len(s.Lens)
			wls := make([]wl.Workload, k)
			bufs := make([]*bytes.Buffer, k)
			writers := make([]*mcap.Writer, k)
			next := make([]int, k) // 0: not created yet; j+1: j calls made
			solo := make([]string, k)
			ok := true
			// instances created from one and the same *WriterOptions value (as the model's optsOf says) have the same
			// configuration: that of the first of them; each solo run uses an options value of its own
			optsObj := map[int]*mcap.WriterOptions{}
			first := map[int]int{}
			shared := false
			for i := 0; i < k; i++ {
				wls[i] = abstractWorkload(s.Lens[i], g, fmt.Sprintf("inst%d-%d", li, i))
				o := i + 1
				if i < len(s.Share) {
					o = s.Share[i]
				}
				if j, seen := first[o]; seen {
					wls[i].Cfg = wls[j].Cfg
					shared = true
				} else {
					first[o] = i
					optsObj[o] = run.Options(wls[i].Cfg)
				}
				solo[i] = digest(writeAll(wls[i]))
				bufs[i] = &bytes.Buffer{}
			}
			var lastDone []byte
			for _, inst := range s.Sched {
				i := inst - 1
				if !ok || i >= k || next[i] > len(wls[i].Calls) {
					ok = false
					break
				}
				if next[i] == 0 { // the instance's first step is its creation
					o := i + 1
					if i < len(s.Share) {
						o = s.Share[i]
					}
					writers[i], err = mcap.NewWriter(bufs[i], optsObj[o])
					if err != nil {
						ok = false
						break
					}
					next[i] = 1
					continue
				}
				if next[i]-1 >= len(wls[i].Calls) {
					ok = false
					break
				}
				run.Apply(writers[i], wls[i].Calls[next[i]-1], wls[i].Cfg.CRC)
				next[i]++
				if next[i]-1 == len(wls[i].Calls) {
					lastDone = bufs[i].Bytes()
				}
				if lastDone != nil { // a reader instance used between writer steps
					readAll(lastDone)
				}
			}
			same := ok
			for i := 0; i < k && ok; i++ {
				if digest(bufs[i].Bytes()) != solo[i] {
					same = false
				}
			}
			kind := "interleaving"
			if shared {
				kind = "interleaving-shared-options"
			}
			tr.Add(wl.Ev{"ev": "Det", "kind": kind, "id": fmt.Sprintf("sched%d", li), "runs": k, "same": same, "steps": len(s.Sched)})
		}
	}
	// (c) 16 goroutines under the race detector
	if *raceBin != "" {
		cmd := exec.Command(*raceBin, "drun", "-mode", "race", "-seed", fmt.Sprint(*seed))
		cmd.Env = append(os.Environ(), "GORACE=halt_on_error=0 exitcode=0")
		var stderr, stdout bytes.Buffer
		cmd.Stderr, cmd.Stdout = &stderr, &stdout
		err := cmd.Run()
		races := strings.Count(stderr.String(), "WARNING: DATA RACE")
		mcapRaces := 0
		for _, blk := range strings.Split(stderr.String(), "WARNING: DATA RACE") {
			if strings.Contains(blk, "foxglove/mcap/go/mcap.") {
				mcapRaces++
			}
		}
		differing := -1
		fmt.Sscanf(stdout.String(), "RACE-RUN differing=%d", &differing)
		tr.Add(wl.Ev{"ev": "Race", "ran": err == nil && differing >= 0, "races": races, "mcapRaces": mcapRaces, "differing": differing, "why": errStr(err)})
	}
	tr.Add(wl.Ev{"ev": "End"})
	return o.emit(tr)
}
