package main

import (
	"bufio"
	"encoding/binary"
	"flag"
	"fmt"
	"hash/crc32"
	"io"
	"os"
	"runtime"
	"runtime/debug"
	"sync/atomic"
	"time"

	"github.com/foxglove/mcap/go/mcap"

	"verifharness/refmcap"
	"verifharness/wl"
)

func init() { commands["memrun"] = memrun }

// genReader produces n pseudo-random bytes without holding them.
type genReader struct {
	n, off uint64
	crc    uint32
}

func (g *genReader) Read(p []byte) (int, error) {
	if g.off >= g.n {
		return 0, io.EOF
	}
	k := uint64(len(p))
	if k > g.n-g.off {
		k = g.n - g.off
	}
	for i := uint64(0); i < k; i++ {
		p[i] = byte((g.off + i) * 31)
	}
	g.crc = crc32.Update(g.crc, crc32.IEEETable, p[:k])
	g.off += k
	return int(k), nil
}

type countSink struct{ n uint64 }

func (c *countSink) Write(p []byte) (int, error) { c.n += uint64(len(p)); return len(p), nil }

// attachmentStream is an MCAP file with one attachment of n data bytes, produced on the fly.
func attachmentStream(n uint64) io.Reader {
	head := append([]byte{}, refmcap.Magic...)
	head = append(head, refmcap.Frame(refmcap.OpHeader, refmcap.BodyHeader(nil, []byte("verif")))...)
	fields := (&refmcap.Enc{}).U64(5).U64(6).Str([]byte("big.bin")).Str([]byte("application/octet-stream")).U64(n).B
	rec := []byte{refmcap.OpAttachment}
	rec = binary.LittleEndian.AppendUint64(rec, uint64(len(fields))+n+4)
	rec = append(rec, fields...)
	g := &genReader{n: n, crc: crc32.ChecksumIEEE(fields)}
	tail := func() io.Reader {
		var t []byte
		t = binary.LittleEndian.AppendUint32(t, g.crc)
		t = append(t, refmcap.Frame(refmcap.OpDataEnd, refmcap.BodyDataEnd(0))...)
		t = append(t, refmcap.Frame(refmcap.OpFooter, refmcap.BodyFooter(0, 0, 0))...)
		t = append(t, refmcap.Magic...)
		return bytesReader(t)
	}
	return io.MultiReader(bytesReader(append(head, rec...)), g, &lazyReader{mk: tail})
}

type lazyReader struct {
	mk func() io.Reader
	r  io.Reader
}

func (l *lazyReader) Read(p []byte) (int, error) {
	if l.r == nil {
		l.r = l.mk()
	}
	return l.r.Read(p)
}

type sliceReader struct {
	b   []byte
	off int
}

func (s *sliceReader) Read(p []byte) (int, error) {
	if s.off >= len(s.b) {
		return 0, io.EOF
	}
	n := copy(p, s.b[s.off:])
	s.off += n
	return n, nil
}
func bytesReader(b []byte) io.Reader { return &sliceReader{b: b} }

// measure runs f while sampling the live heap.
func measure(f func() error) (peakKiB, totalKiB uint64, err error) {
	debug.SetGCPercent(50)
	runtime.GC()
	var m0 runtime.MemStats
	runtime.ReadMemStats(&m0)
	var peak uint64
	var stop int32
	done := make(chan struct{})
	go func() {
		var m runtime.MemStats
		for atomic.LoadInt32(&stop) == 0 {
			runtime.ReadMemStats(&m)
			if m.HeapAlloc > peak {
				peak = m.HeapAlloc
			}
			time.Sleep(2 * time.Millisecond)
		}
		close(done)
	}()
	err = f()
	atomic.StoreInt32(&stop, 1)
	<-done
	var m1 runtime.MemStats
	runtime.ReadMemStats(&m1)
	if m1.HeapAlloc > peak {
		peak = m1.HeapAlloc
	}
	base := m0.HeapAlloc
	if peak < base {
		peak = base
	}
	return (peak - base) / 1024, (m1.TotalAlloc - m0.TotalAlloc) / 1024, err
}

// memrun streams attachments of growing size through the writer and the lexer
// and reports the additional peak heap and the total allocation of each run.
func memrun(args []string) error {
	fs := flag.NewFlagSet("memrun", flag.ExitOnError)
	out := fs.String("out", "trace.ndjson", "trace output")
	maxMiB := fs.Uint64("max", 64, "largest attachment in MiB")
	fs.Parse(args)
	tf, err := os.Create(*out)
	if err != nil {
		return err
	}
	defer tf.Close()
	o := &outFiles{trace: bufio.NewWriterSize(tf, 1<<20)}
	defer o.trace.Flush()
	tr := wl.NewTrace()
	tr.Add(wl.Ev{"ev": "Run", "id": "streams"})
	sizes := []uint64{1 << 10, 1 << 20, 16 << 20}
	for s := uint64(64 << 20); s <= *maxMiB<<20; s *= 4 {
		sizes = append(sizes, s)
	}
	for _, n := range sizes {
		// writer: attachment from a generator to a counting sink
		var written uint64
		p, t, err := measure(func() error {
			sink := &countSink{}
			w, err := mcap.NewWriter(sink, &mcap.WriterOptions{Chunked: true, IncludeCRC: true})
			if err != nil {
				return err
			}
			if err := w.WriteHeader(&mcap.Header{}); err != nil {
				return err
			}
			if err := w.WriteAttachment(&mcap.Attachment{Name: "big.bin", MediaType: "x", DataSize: n, Data: &genReader{n: n}}); err != nil {
				return err
			}
			err = w.Close()
			written = sink.n
			return err
		})
		tr.Add(wl.Ev{"ev": "Stream", "dir": "write", "sizeKiB": n / 1024, "peakKiB": p, "totalKiB": t, "ok": err == nil && written > n, "why": errStr(err)})
		// reader: lexer with attachment callback over a generated stream
		var got uint64
		var crcOK bool
		p, t, err = measure(func() error {
			lexer, err := mcap.NewLexer(attachmentStream(n), &mcap.LexerOptions{ComputeAttachmentCRCs: true, AttachmentCallback: func(ar *mcap.AttachmentReader) error {
				k, err := io.Copy(io.Discard, ar.Data())
				got = uint64(k)
				if err != nil {
					return err
				}
				c1, e1 := ar.ComputedCRC()
				c2, e2 := ar.ParsedCRC()
				crcOK = e1 == nil && e2 == nil && c1 == c2
				return nil
			}})
			if err != nil {
				return err
			}
			defer lexer.Close()
			for {
				_, _, err := lexer.Next(nil)
				if err == io.EOF {
					return nil
				}
				if err != nil {
					return err
				}
			}
		})
		tr.Add(wl.Ev{"ev": "Stream", "dir": "read", "sizeKiB": n / 1024, "peakKiB": p, "totalKiB": t, "ok": err == nil && got == n && crcOK, "why": errStr(err)})
		// reader: the lexer WITHOUT an attachment callback (the attachment is skipped), and the sequential message read of
		// the same stream through Reader.Messages(UsingIndex(false)): nobody asked for the attachment, it must not be buffered
		p, t, err = measure(func() error {
			lexer, err := mcap.NewLexer(attachmentStream(n), &mcap.LexerOptions{})
			if err != nil {
				return err
			}
			defer lexer.Close()
			for {
				_, _, err := lexer.Next(nil)
				if err == io.EOF {
					return nil
				}
				if err != nil {
					return err
				}
			}
		})
		tr.Add(wl.Ev{"ev": "Stream", "dir": "read-skip", "sizeKiB": n / 1024, "peakKiB": p, "totalKiB": t, "ok": err == nil, "why": errStr(err)})
		p, t, err = measure(func() error {
			reader, err := mcap.NewReader(attachmentStream(n))
			if err != nil {
				return err
			}
			defer reader.Close()
			it, err := reader.Messages(mcap.UsingIndex(false))
			if err != nil {
				return err
			}
			for {
				_, _, _, err := it.NextInto(nil)
				if err == io.EOF {
					return nil
				}
				if err != nil {
					return err
				}
			}
		})
		tr.Add(wl.Ev{"ev": "Stream", "dir": "scan-skip", "sizeKiB": n / 1024, "peakKiB": p, "totalKiB": t, "ok": err == nil, "why": errStr(err)})
	}
	// the writer over a long recording: the live heap after 300 000 small messages must be what it was after 100 000
	// (memory for a few chunks, not for the file), with and without message indexing
	for _, skip := range []bool{false, true} {
		sink := &countSink{}
		w, err := mcap.NewWriter(sink, &mcap.WriterOptions{Chunked: true, ChunkSize: 64 << 10, SkipMessageIndexing: skip, IncludeCRC: true})
		if err != nil {
			return err
		}
		_ = w.WriteHeader(&mcap.Header{})
		for ch := uint16(0); ch < 4; ch++ {
			_ = w.WriteChannel(&mcap.Channel{ID: ch, Topic: fmt.Sprintf("/t%d", ch)})
		}
		live := func() uint64 {
			runtime.GC()
			runtime.GC()
			var m runtime.MemStats
			runtime.ReadMemStats(&m)
			return m.HeapAlloc
		}
		payload := make([]byte, 24)
		var at30 uint64
		ok := true
		for i := 0; i < 300000; i++ {
			if i == 100000 {
				at30 = live()
			}
			if err := w.WriteMessage(&mcap.Message{ChannelID: uint16(i % 4), Sequence: uint32(i), LogTime: uint64(i), PublishTime: uint64(i), Data: payload}); err != nil {
				ok = false
				break
			}
		}
		end := live()
		growth := uint64(0)
		if end > at30 {
			growth = end - at30
		}
		_ = w.Close()
		dir := "write-long"
		if skip {
			dir = "write-long-noindex"
		}
		// reported in the vocabulary of the stream judge: peak = growth of the live heap between message 100 000 and 300 000
		tr.Add(wl.Ev{"ev": "Stream", "dir": dir, "sizeKiB": sink.n / 1024, "peakKiB": growth / 1024, "totalKiB": 0, "ok": ok, "why": ""})
	}
	tr.Add(wl.Ev{"ev": "End"})
	_ = fmt.Sprint
	return o.emit(tr)
}
