package main

import (
	"bufio"
	"bytes"
	"encoding/binary"
	"encoding/json"
	"errors"
	"flag"
	"fmt"
	"io"
	"math/rand"
	"os"
	"os/exec"
	"runtime"
	"runtime/debug"
	"sort"
	"strings"
	"sync"
	"syscall"
	"time"

	"verifharness/refmcap"
	"verifharness/run"
	"verifharness/wl"
)

func init() {
	commands["hrun"] = hrun
	commands["hostile-worker"] = hostileWorker
}

type hcase struct {
	I    int    `json:"i"`
	EP   string `json:"ep"`
	Seek bool   `json:"seek"`
	Data []byte `json:"data"`
	Base string `json:"base"`
	Rec  string `json:"rec"`
	Fld  string `json:"fld"`
	Mag  string `json:"mag"`
	Kind string `json:"kind"` // field | cut | splice | random | nested | compression
	Orig int    `json:"orig"`
	Rest int    `json:"rest"`
	InCh int    `json:"inchunk"`
}

type houtcome struct {
	I        int    `json:"i"`
	Class    string `json:"class"` // ok | eof | error | panic | fatal | timeout | killed
	AllocKiB uint64 `json:"allocKiB"`
	Ms       int64  `json:"ms"`
	Where    string `json:"where"`
}

// ---------------------------------------------------------------- worker (child process)

func hostileWorker(args []string) error {
	fs := flag.NewFlagSet("hostile-worker", flag.ExitOnError)
	cases := fs.String("cases", "", "cases file")
	from := fs.Int("from", 0, "first case index")
	to := fs.Int("to", 0, "one past the last case index")
	out := fs.String("out", "", "outcome file (appended)")
	asGiB := fs.Uint64("as", 12, "address space limit in GiB")
	deadline := fs.Duration("deadline", 20*time.Second, "per-input deadline")
	mod := fs.Int("mod", 1, "only the cases whose index is congruent to -rem modulo this")
	rem := fs.Int("rem", 0, "see -mod")
	skip := fs.String("skip", "", "signatures (entry point|source kind|record|field|kind, separated by ;) whose cases are not run any more")
	fs.Parse(args)
	skipSigs := map[string]bool{}
	for _, sg := range strings.Split(*skip, ";") {
		if sg != "" {
			skipSigs[sg] = true
		}
	}
	lim := syscall.Rlimit{Cur: *asGiB << 30, Max: *asGiB << 30}
	_ = syscall.Setrlimit(syscall.RLIMIT_AS, &lim)
	debug.SetGCPercent(25)
	f, err := os.Open(*cases)
	if err != nil {
		return err
	}
	defer f.Close()
	of, err := os.OpenFile(*out, os.O_APPEND|os.O_CREATE|os.O_WRONLY, 0o644)
	if err != nil {
		return err
	}
	defer of.Close()
	sc := bufio.NewScanner(f)
	sc.Buffer(make([]byte, 1<<20), 1<<28)
	var current int64 = -1
	var started time.Time
	var startedCPU time.Duration
	var mu sync.Mutex
	go func() { // watchdog: a case that overruns its deadline ends the process
		// The deadline is measured in CPU time consumed by this process since the case started: a loop that makes no
		// progress burns CPU without bound, while a machine that is busy with other work only stretches the wall clock
		// (which is bounded separately, generously, for the sake of a blocked case).
		for {
			time.Sleep(200 * time.Millisecond)
			mu.Lock()
			c, s, sc := current, started, startedCPU
			mu.Unlock()
			if c >= 0 && (cpuTime()-sc > *deadline || time.Since(s) > 30**deadline) {
				fmt.Fprintf(of, "TIMEOUT %d\n", c)
				of.Sync()
				os.Exit(3)
			}
		}
	}()
	idx := -1
	for sc.Scan() {
		idx++
		if idx < *from || idx >= *to || idx%*mod != *rem {
			continue
		}
		var c hcase
		if err := json.Unmarshal(sc.Bytes(), &c); err != nil {
			return err
		}
		if skipSigs[sigOf(&c)] {
			b, _ := json.Marshal(houtcome{I: c.I, Class: "unconfirmed", Where: "not run: two inputs of this signature overran their deadline already, alone as well"})
			fmt.Fprintf(of, "DONE %s\n", b)
			continue
		}
		fmt.Fprintf(of, "START %d\n", c.I)
		mu.Lock()
		current, started, startedCPU = int64(c.I), time.Now(), cpuTime()
		mu.Unlock()
		var m0, m1 runtime.MemStats
		runtime.ReadMemStats(&m0)
		o := houtcome{I: c.I}
		func() {
			defer func() {
				if p := recover(); p != nil {
					o.Class = "panic"
					st := string(debug.Stack())
					o.Where = fmt.Sprintf("%v | %s", p, firstMcapFrame(st))
				}
			}()
			err := run.RunEntry(c.EP, c.Data, c.Seek)
			switch {
			case err == nil:
				o.Class = "ok"
			case errors.Is(err, io.EOF) && !errors.Is(err, io.ErrUnexpectedEOF):
				o.Class = "eof"
			default:
				o.Class = "error"
				if strings.HasPrefix(err.Error(), "verif:") {
					o.Class = "timeout" // iteration limit: no progress
					o.Where = err.Error()
				}
			}
		}()
		runtime.ReadMemStats(&m1)
		mu.Lock()
		o.Ms = time.Since(started).Milliseconds()
		current = -1
		mu.Unlock()
		o.AllocKiB = (m1.TotalAlloc - m0.TotalAlloc) / 1024
		b, _ := json.Marshal(o)
		fmt.Fprintf(of, "DONE %s\n", b)
		if o.AllocKiB > 256<<10 {
			// the address-space cap is meant for one input, not for the garbage of the inputs before it
			debug.FreeOSMemory()
		}
	}
	return sc.Err()
}

func firstMcapFrame(stack string) string {
	lines := strings.Split(stack, "\n")
	for i, l := range lines {
		if strings.Contains(l, "foxglove/mcap/go/") && !strings.Contains(l, "verifharness") && i+1 < len(lines) {
			fn := l
			if k := strings.LastIndex(fn, "("); k > 0 {
				fn = fn[:k]
			}
			loc := strings.TrimSpace(lines[i+1])
			if k := strings.Index(loc, " +"); k > 0 {
				loc = loc[:k]
			}
			if k := strings.LastIndex(loc, "/"); k >= 0 {
				loc = loc[k+1:]
			}
			return strings.TrimSpace(fn) + " " + loc
		}
	}
	return ""
}

// ---------------------------------------------------------------- case generation

func hostileBases(seed int64) map[string][]byte {
	r := rand.New(rand.NewSource(seed))
	mk := func(comp string, chunked, crc bool) []byte {
		ss, cs := stdChannels()
		f := &refmcap.BFile{Profile: []byte("p"), Library: []byte("verif"), Schemas: ss, Channels: cs, DefsUpFront: !chunked, MessageIndex: true,
			SummaryOffsets: true, CRC: crc, SummaryOrder: []string{"Schema", "Channel", "Statistics", "ChunkIndex", "AttachmentIndex", "MetadataIndex"}}
		seq := uint32(0)
		var msgs []refmcap.BMsg
		for i := 0; i < 5; i++ {
			seq++
			d := make([]byte, 3+r.Intn(6))
			r.Read(d)
			msgs = append(msgs, refmcap.BMsg{Ch: uint16(i % 2), Seq: seq, Log: uint64(10 + i*3%7), Pub: uint64(i), Data: d})
		}
		att := &refmcap.BAttachment{Log: 1, Create: 2, Name: []byte("a.bin"), Media: []byte("x/y"), Data: []byte("attachment-data")}
		md := &refmcap.BMetadata{Name: []byte("md"), MD: []refmcap.KV{{K: []byte("k"), V: []byte("v")}}}
		if chunked {
			f.Items = append(f.Items, refmcap.Item{Chunk: &refmcap.BChunk{Msgs: msgs[:3], Compression: comp, Defs: true}}, refmcap.Item{Att: att},
				refmcap.Item{Chunk: &refmcap.BChunk{Msgs: msgs[3:], Compression: comp, Defs: true}}, refmcap.Item{Md: md})
		} else {
			for i := range msgs {
				f.Items = append(f.Items, refmcap.Item{Msg: &msgs[i]})
			}
			f.Items = append(f.Items, refmcap.Item{Att: att}, refmcap.Item{Md: md})
		}
		b, _ := refmcap.Build(f)
		return b.Bytes
	}
	return map[string][]byte{"chunked-none": mk("", true, false), "chunked-zstd": mk("zstd", true, true), "chunked-lz4": mk("lz4", true, true), "unchunked": mk("", false, true)}
}

func putUint(b []byte, off uint64, width int, v uint64) {
	switch width {
	case 1:
		b[off] = byte(v)
	case 2:
		binary.LittleEndian.PutUint16(b[off:], uint16(v))
	case 4:
		binary.LittleEndian.PutUint32(b[off:], uint32(v))
	case 8:
		binary.LittleEndian.PutUint64(b[off:], v)
	}
}
func getUint(b []byte, off uint64, width int) uint64 {
	switch width {
	case 1:
		return uint64(b[off])
	case 2:
		return uint64(binary.LittleEndian.Uint16(b[off:]))
	case 4:
		return uint64(binary.LittleEndian.Uint32(b[off:]))
	}
	return binary.LittleEndian.Uint64(b[off:])
}

type mag struct {
	name string
	v    uint64
}

func magnitudes(orig, rest uint64, width int) []mag {
	ms := []mag{{"0", 0}, {"1", 1}, {"v-1", orig - 1}, {"v+1", orig + 1}, {"rest-1", rest - 1}, {"rest", rest}, {"rest+1", rest + 1},
		{"8", 8}, {"9", 9}, {"24", 24}, {"25", 25}, {"2^31-1", 1<<31 - 1}, {"2^31", 1 << 31}}
	if width >= 4 {
		ms = append(ms, mag{"2^32-9", 1<<32 - 9}, mag{"2^32-1", 1<<32 - 1})
		// between the configurable limits (1 MiB in the lex-limits entry point) and the 2 GiB ceiling
		ms = append(ms, mag{"2^20+1", 1<<20 + 1}, mag{"2^27", 1 << 27})
	}
	if width == 8 {
		ms = append(ms, mag{"2^32", 1 << 32}, mag{"2^40", 1 << 40}, mag{"2^63-1", 1<<63 - 1}, mag{"2^63", 1 << 63}, mag{"2^64-9", ^uint64(0) - 8}, mag{"2^64-1", ^uint64(0)})
	}
	if width <= 2 {
		ms = append(ms, mag{"max", 1<<(8*uint(width)) - 1})
	}
	return ms
}

func epVariants() [][2]any {
	var out [][2]any
	for _, ep := range run.EntryPoints {
		out = append(out, [2]any{ep, true})
		if strings.HasPrefix(ep, "lex") {
			out = append(out, [2]any{ep, false})
		}
	}
	return out
}

func genCases(seed int64, tier string, w *bufio.Writer) (int, error) {
	n := 0
	emit := func(c hcase) error {
		c.I = n
		n++
		b, err := json.Marshal(c)
		if err != nil {
			return err
		}
		w.Write(b)
		return w.WriteByte('\n')
	}
	bases := hostileBases(seed)
	names := []string{"chunked-none", "chunked-zstd", "unchunked", "chunked-lz4"}
	if tier == "quick" {
		names = names[:3]
	}
	eps := epVariants()
	r := rand.New(rand.NewSource(seed))
	for _, bn := range names {
		base := bases[bn]
		for _, f := range refmcap.Fields(base) {
			if f.Class == "crc" || f.Class == "time" || (f.Class == "id" && tier == "quick") {
				continue
			}
			orig := getUint(base, f.Off, f.Width)
			rest := uint64(len(base)) - f.Off - uint64(f.Width)
			for _, m := range magnitudes(orig, rest, f.Width) {
				mut := append([]byte{}, base...)
				putUint(mut, f.Off, f.Width, m.v)
				if getUint(mut, f.Off, f.Width) == orig {
					continue
				}
				for _, ev := range eps {
					ep := ev[0].(string)
					if tier == "quick" && bn != "chunked-none" && r.Intn(3) != 0 {
						continue
					}
					if err := emit(hcase{EP: ep, Seek: ev[1].(bool), Data: mut, Base: bn, Rec: f.Rec, Fld: f.Name, Mag: m.name, Kind: "field", Orig: wl.N(orig), Rest: wl.N(rest), InCh: f.InChunk}); err != nil {
						return n, err
					}
				}
			}
		}
		// id climbs: the id fields of the successive Schema / Channel records (in file order, wherever they stand) are set to
		// a series that approaches the top of the 16-bit range - what an id-indexed table sees depends on the ids before
		for _, rname := range []string{"Schema", "Channel"} {
			var offs []uint64
			for _, f := range refmcap.Fields(base) {
				if f.Rec == rname && f.Name == "id" {
					offs = append(offs, f.Off)
				}
			}
			for ci, climb := range [][]uint64{{65534, 65535}, {64512, 65535}, {40000, 50000, 60000, 65535}, {65533, 65534, 65535}, {65535, 65534}} {
				mut := append([]byte{}, base...)
				for i, off := range offs {
					putUint(mut, off, 2, climb[i%len(climb)])
				}
				for _, ev := range eps {
					if err := emit(hcase{EP: ev[0].(string), Seek: ev[1].(bool), Data: mut, Base: bn, Rec: rname, Fld: "id", Mag: fmt.Sprintf("climb%d", ci), Kind: "idclimb"}); err != nil {
						return n, err
					}
				}
			}
		}
		// a record turned into one with an unknown opcode AND a hostile length (the length of a record that is only skipped
		// is consumed differently from the length of one that is read)
		for _, f := range refmcap.Fields(base) {
			if f.Name != "record_length" || f.Off == 0 {
				continue
			}
			for _, lv := range []struct {
				name string
				v    uint64
			}{{"2^63", 1 << 63}, {"2^64-9", ^uint64(0) - 8}, {"2^64-43", ^uint64(0) - 42}, {"2^32", 1 << 32}, {"2^31-1", 1<<31 - 1}} {
				for _, op := range []byte{0x80, 0xff} {
					mut := append([]byte{}, base...)
					mut[f.Off-1] = op
					putUint(mut, f.Off, 8, lv.v)
					for _, ev := range eps {
						if tier == "quick" && bn != "chunked-none" && op == 0xff {
							continue
						}
						if err := emit(hcase{EP: ev[0].(string), Seek: ev[1].(bool), Data: mut, Base: bn, Rec: f.Rec, Fld: "unknown+record_length", Mag: lv.name, Kind: "unknownlen", InCh: f.InChunk}); err != nil {
							return n, err
						}
					}
				}
			}
		}
		// truncations at every record boundary and inside every length field
		for _, f := range refmcap.Fields(base) {
			if f.Name != "record_length" {
				continue
			}
			for _, cut := range []uint64{f.Off - 1, f.Off + 3, f.Off + 8, f.Off + 9} {
				if cut >= uint64(len(base)) {
					continue
				}
				for _, ev := range eps {
					if err := emit(hcase{EP: ev[0].(string), Seek: ev[1].(bool), Data: base[:cut], Base: bn, Rec: f.Rec, Fld: "cut", Mag: fmt.Sprint(cut), Kind: "cut"}); err != nil {
						return n, err
					}
				}
			}
		}
		// splices: a record duplicated, swapped with its neighbour, or removed; a chunk nested inside a chunk; unknown compression
		recs := refmcap.DecodeFile(base).Recs
		for i, rec := range recs {
			dup := append(append(append([]byte{}, base[:rec.Pos+rec.Len]...), base[rec.Pos:rec.Pos+rec.Len]...), base[rec.Pos+rec.Len:]...)
			del := append(append([]byte{}, base[:rec.Pos]...), base[rec.Pos+rec.Len:]...)
			vars := map[string][]byte{"dup": dup, "del": del}
			if rec.Op == refmcap.OpChunk && len(rec.Compression) == 0 {
				inner := refmcap.Frame(refmcap.OpChunk, rec.Body)
				nested := append(append([]byte{}, base[:rec.Pos]...), refmcap.Frame(refmcap.OpChunk, refmcap.BodyChunk(rec.StartTime, rec.EndTime, uint64(len(inner)), 0, nil, inner))...)
				vars["nested"] = append(nested, base[rec.Pos+rec.Len:]...)
			}
			if rec.Op == refmcap.OpChunk {
				for _, comp := range []string{"zstd", "lz4", "bogus", strings.Repeat("x", 25), strings.Repeat("y", 300)} {
					if comp == string(rec.Compression) {
						continue
					}
					body := refmcap.BodyChunk(rec.StartTime, rec.EndTime, rec.USize, rec.CRC, []byte(comp), rec.Records)
					vars["comp="+comp[:min(len(comp), 5)]+fmt.Sprint(len(comp))] = append(append(append([]byte{}, base[:rec.Pos]...), refmcap.Frame(refmcap.OpChunk, body)...), base[rec.Pos+rec.Len:]...)
				}
			}
			for name, mut := range vars {
				for _, ev := range eps {
					if tier == "quick" && r.Intn(2) != 0 {
						continue
					}
					if err := emit(hcase{EP: ev[0].(string), Seek: ev[1].(bool), Data: mut, Base: bn, Rec: refmcap.KindOf(rec.Op), Fld: fmt.Sprintf("rec%d", i), Mag: name, Kind: "splice"}); err != nil {
						return n, err
					}
				}
			}
		}
	}
	// random byte strings and random byte-level mutations of valid files
	nr := 300
	if tier != "quick" {
		nr = 6000
	}
	for k := 0; k < nr; k++ {
		var data []byte
		switch k % 3 {
		case 0:
			data = make([]byte, r.Intn(300))
			r.Read(data)
			if r.Intn(2) == 0 {
				data = append(append([]byte{}, refmcap.Magic...), data...)
			}
		default:
			base := bases[names[r.Intn(len(names))]]
			data = append([]byte{}, base...)
			for j := 0; j < 1+r.Intn(6); j++ {
				data[r.Intn(len(data))] = byte(r.Intn(256))
			}
			if r.Intn(4) == 0 {
				data = data[:r.Intn(len(data))]
			}
		}
		for _, ev := range eps {
			if err := emit(hcase{EP: ev[0].(string), Seek: ev[1].(bool), Data: data, Base: "random", Rec: "-", Fld: fmt.Sprint(k), Mag: "-", Kind: "random"}); err != nil {
				return n, err
			}
		}
	}
	return n, nil
}

// ---------------------------------------------------------------- parent

func hrun(args []string) error {
	fs := flag.NewFlagSet("hrun", flag.ExitOnError)
	seed := fs.Int64("seed", 1, "seed")
	tier := fs.String("tier", "quick", "quick | thorough")
	out := fs.String("out", "trace.ndjson", "trace output")
	dir := fs.String("dir", os.TempDir(), "scratch directory")
	in := fs.String("in", "", "replay: cases file")
	workers := fs.Int("workers", runtime.NumCPU(), "parallel workers")
	fs.Parse(args)
	casesPath := *dir + "/cases.ndjson"
	n := 0
	if *in != "" {
		casesPath = *in
		b, err := os.ReadFile(*in)
		if err != nil {
			return err
		}
		n = bytes.Count(b, []byte("\n"))
	} else {
		cf, err := os.Create(casesPath)
		if err != nil {
			return err
		}
		w := bufio.NewWriterSize(cf, 1<<20)
		n, err = genCases(*seed, *tier, w)
		w.Flush()
		cf.Close()
		if err != nil {
			return err
		}
	}
	outcomes := runCases(casesPath, n, *dir, *workers)
	// render the trace
	tf, err := os.Create(*out)
	if err != nil {
		return err
	}
	defer tf.Close()
	o := &outFiles{trace: bufio.NewWriterSize(tf, 1<<20)}
	defer o.trace.Flush()
	tr := wl.NewTrace()
	tr.Add(wl.Ev{"ev": "Run", "id": "hostile"})
	cf, err := os.Open(casesPath)
	if err != nil {
		return err
	}
	defer cf.Close()
	sc := bufio.NewScanner(cf)
	sc.Buffer(make([]byte, 1<<20), 1<<28)
	i := 0
	for sc.Scan() {
		var c hcase
		if err := json.Unmarshal(sc.Bytes(), &c); err != nil {
			return err
		}
		oc := outcomes[i]
		if oc == nil {
			oc = &houtcome{I: i, Class: "missing"}
		}
		tr.Add(wl.Ev{"ev": "Case", "i": i, "ep": c.EP, "seek": c.Seek, "base": c.Base, "rec": c.Rec, "fld": c.Fld, "mag": c.Mag, "kind": c.Kind,
			"orig": c.Orig, "rest": c.Rest, "inchunk": c.InCh, "size": len(c.Data), "class": oc.Class, "allocKiB": oc.AllocKiB, "ms": oc.Ms, "where": oc.Where})
		i++
	}
	tr.Add(wl.Ev{"ev": "End"})
	return o.emit(tr)
}

// runCases executes the cases of a file in isolated worker processes and returns one outcome per case.
// casesASGiB is the address-space cap handed to the isolated workers. The library's documented ceiling is 2 GiB per buffer
// (12 GiB leaves room for a few of them); the bag converter has no stated ceiling and asks for twice a 32-bit length, in
// up to two live buffers at once, which must not be mistaken for a crash: brun raises the cap.
var casesASGiB uint64 = 12

// casesDeadline is the per-input CPU deadline of the first pass (the confirmation pass has 120 s).
var casesDeadline = "20s"

// confirmDeadline is the CPU deadline of the run of one input on its own.
var confirmDeadline = "120s"

// sigOf groups the cases of a plan: when two inputs of one group have overrun their deadline (also when run alone), the rest of the group is
// not run (a change that makes a whole group hang would otherwise cost its deadline per input).
func sigOf(c *hcase) string {
	return fmt.Sprintf("%s|%v|%s|%s|%s", c.EP, c.Seek, c.Rec, c.Fld, c.Kind)
}

func runCases(casesPath string, n int, dirv string, workersv int) []*houtcome {
	dir, workers := &dirv, &workersv
	self, _ := os.Executable()
	outcomes := make([]*houtcome, n)
	var wg sync.WaitGroup
	var mu sync.Mutex
	var cases []hcase
	if cf, err := os.Open(casesPath); err == nil {
		sc := bufio.NewScanner(cf)
		sc.Buffer(make([]byte, 1<<20), 1<<28)
		for sc.Scan() {
			var c hcase
			json.Unmarshal(sc.Bytes(), &c)
			c.Data = nil
			cases = append(cases, c)
		}
		cf.Close()
	}
	overruns := map[string]int{}
	skipList := func() string {
		mu.Lock()
		defer mu.Unlock()
		var l []string
		for sg, k := range overruns {
			if k >= 2 {
				l = append(l, sg)
			}
		}
		sort.Strings(l)
		return strings.Join(l, ";")
	}
	// confirm runs one input on its own with the long deadline; true when it ended by itself (outcome recorded)
	confirmed := make([]bool, n)
	confirm := func(i int) bool {
		of := fmt.Sprintf("%s/confirm-%d.txt", *dir, i)
		os.Remove(of)
		defer os.Remove(of)
		cmd := exec.Command(self, "hostile-worker", "-cases", casesPath, "-from", fmt.Sprint(i), "-to", fmt.Sprint(i+1), "-out", of, "-deadline", confirmDeadline, "-as", fmt.Sprint(casesASGiB))
		err := cmd.Run()
		b, _ := os.ReadFile(of)
		mu.Lock()
		defer mu.Unlock()
		confirmed[i] = true
		if err != nil {
			return false
		}
		for _, line := range strings.Split(string(b), "\n") {
			if strings.HasPrefix(line, "DONE ") {
				var o houtcome
				if json.Unmarshal([]byte(line[5:]), &o) == nil {
					outcomes[i] = &o
					return true
				}
			}
		}
		return false
	}
	// worker k takes the cases k, k+workers, k+2*workers, ...: the cases of one plan are neighbours in the file, and a change
	// that makes a whole plan hang would otherwise keep one worker busy with all of them while the others are done
	for k := 0; k < *workers; k++ {
		from, to := k, n
		if from >= to {
			continue
		}
		wg.Add(1)
		go func(k, from, to int) {
			defer wg.Done()
			of := fmt.Sprintf("%s/outcomes-%d.txt", *dir, k)
			os.Remove(of)
			nextIn := func(x int) int { // the first case of this worker at or after x
				for x%*workers != k {
					x++
				}
				return x
			}
			next := from
			for next < to {
				cmd := exec.Command(self, "hostile-worker", "-cases", casesPath, "-from", fmt.Sprint(next), "-to", fmt.Sprint(to), "-mod", fmt.Sprint(*workers), "-rem", fmt.Sprint(k), "-out", of, "-as", fmt.Sprint(casesASGiB), "-deadline", casesDeadline, "-skip", skipList())
				var stderr bytes.Buffer
				cmd.Stderr = &stderr
				err := cmd.Run()
				b, _ := os.ReadFile(of)
				started, timeout := -1, false
				last := next - 1
				for _, line := range strings.Split(string(b), "\n") {
					switch {
					case strings.HasPrefix(line, "START "):
						fmt.Sscanf(line, "START %d", &started)
					case strings.HasPrefix(line, "TIMEOUT "):
						timeout = true
					case strings.HasPrefix(line, "DONE "):
						var o houtcome
						if json.Unmarshal([]byte(line[5:]), &o) == nil {
							mu.Lock()
							outcomes[o.I] = &o
							mu.Unlock()
							if o.I > last {
								last = o.I
							}
							started = -1
						}
					}
				}
				if err == nil {
					break
				}
				// the child died while working on case `started`
				if started < 0 {
					started = nextIn(last + 1)
				}
				class := "fatal"
				es := stderr.String()
				where := ""
				switch {
				case timeout:
					class = "timeout"
				case strings.Contains(es, "out of memory") || strings.Contains(es, "cannot allocate memory"):
					class, where = "oom", firstLine(es)
				case strings.Contains(es, "stack overflow"):
					class, where = "fatal", "stack overflow"
				default:
					where = firstLine(es)
				}
				if started < n {
					mu.Lock()
					outcomes[started] = &houtcome{I: started, Class: class, Where: where + " | " + firstMcapFrame(es)}
					mu.Unlock()
					// an overrun counts towards giving up on its signature only when the input overruns on its own as well, with
					// the long deadline (an oversubscribed machine stretches the CPU time of inputs that zero gigabytes)
					if class == "timeout" && started < len(cases) && !confirm(started) {
						mu.Lock()
						overruns[sigOf(&cases[started])]++
						mu.Unlock()
					}
				}
				next = started + 1
				os.Remove(of)
			}
			os.Remove(of)
		}(k, from, to)
	}
	wg.Wait()
	// a deadline overrun, OOM or fatal error seen under 16-fold parallel load is confirmed by running the case on its own
	// (six at a time) with a deadline of 120 s of CPU time: the slowest legitimate cases (multi-GiB buffers requested and zeroed
	// before the data turns out to be missing) take 5-15 s of CPU, several times that when the machine is oversubscribed.
	// A change that makes hundreds of cases hang would otherwise cost 120 s each: the first confirmations
	// of a signature (class, entry point, source kind, record, field, kind) are run, the remaining cases of that signature
	// are reported as "unconfirmed" (no verdict; counted in the evidence).
	type job struct{ i int }
	var jobs []job
	seen := map[string]int{}
	for i, oc := range outcomes {
		if oc == nil || confirmed[i] || (oc.Class != "timeout" && oc.Class != "oom" && oc.Class != "fatal" && oc.Class != "killed") {
			continue
		}
		key := oc.Class
		if i < len(cases) {
			key = oc.Class + "|" + sigOf(&cases[i])
		}
		seen[key]++
		if seen[key] > 1 && len(jobs) >= 24 {
			outcomes[i] = &houtcome{I: i, Class: "unconfirmed", Where: oc.Class + " under load, not re-run: " + oc.Where}
			continue
		}
		jobs = append(jobs, job{i})
	}
	sem := make(chan struct{}, 6)
	for _, j := range jobs {
		wg.Add(1)
		sem <- struct{}{}
		go func(i int) {
			defer wg.Done()
			defer func() { <-sem }()
			confirm(i)
		}(j.i)
	}
	wg.Wait()
	return outcomes
}

// cpuTime is the CPU time (user + system) this process has consumed so far.
func cpuTime() time.Duration {
	var ru syscall.Rusage
	if err := syscall.Getrusage(syscall.RUSAGE_SELF, &ru); err != nil {
		return 0
	}
	return time.Duration(ru.Utime.Nano() + ru.Stime.Nano())
}

func firstLine(s string) string {
	for _, l := range strings.Split(s, "\n") {
		if strings.TrimSpace(l) != "" {
			if len(l) > 160 {
				l = l[:160]
			}
			return l
		}
	}
	return ""
}
