package main

import (
	"bufio"
	"bytes"
	"encoding/json"
	"errors"
	"flag"
	"fmt"
	"io"
	"math/rand"
	"os"
	"runtime"
	"strings"
	"sync"
	"sync/atomic"
	"time"

	"verifharness/gen"
	"verifharness/refmcap"
	"verifharness/run"
	"verifharness/wl"
)

func init() { commands["rrun"] = rrun }

// obsRead is one read of a source by the real code, reduced to comparable tokens.
type obsRead struct {
	canon []string // canonical form of each token / message triple (exact field values)
	kinds []string
	short []bool // attachment delivered with fewer data bytes than declared
	toks  []map[string]any
	end   string
	err   error
	mds   int
}

func canon(v any) string { return fmt.Sprintf("%v", v) }

// readVia reads src to its end through one of the public read paths.  A read that does not come back within the
// deadline (two minutes of wall clock for an input of a few KiB: five orders of magnitude above its normal duration, so
// machine load cannot explain it) is reported as ending in "hang"; its goroutine is abandoned.
func readVia(src io.Reader, via string, validate, emitInvalid, skipMagic bool) *obsRead {
	done := make(chan *obsRead, 1)
	go func() { done <- readViaNow(src, via, validate, emitInvalid, skipMagic) }()
	select {
	case o := <-done:
		return o
	case <-time.After(readDeadline()):
		atomic.AddInt32(&hangs, 1)
		return &obsRead{end: "hang", err: errors.New("verif: the read did not return")}
	}
}

var hangs int32

// once a few reads have hung (the tree is broken, and every abandoned goroutine keeps a core busy) the remaining reads
// get a shorter leash so that the run still ends
func readDeadline() time.Duration {
	if atomic.LoadInt32(&hangs) >= 3 {
		return 20 * time.Second
	}
	return 120 * time.Second
}

func readViaNow(src io.Reader, via string, validate, emitInvalid, skipMagic bool) *obsRead {
	o := &obsRead{}
	switch via {
	case "lex", "lexc": // lexc: the caller's own (lenient) zstd / lz4 decompressors instead of the built-in ones
		lr := run.LexAll(src, run.LexOpts{SkipMagic: skipMagic, Validate: validate, EmitInvalid: emitInvalid, AttCRC: true, Attachments: true, CustomCodecs: via == "lexc"})
		for _, t := range lr.Toks {
			m := t.(map[string]any)
			o.kinds = append(o.kinds, m["k"].(string))
			short := false
			if m["k"] == "Attachment" {
				short = m["dataerr"].(bool) || uint64(len(m["data"].(wl.Blob))) != m["dsize"].(uint64)
			}
			o.short = append(o.short, short)
			o.canon = append(o.canon, canon(m))
			o.toks = append(o.toks, m)
		}
		o.end, o.err = lr.End, lr.Err
	case "scan", "idx", "idxlog", "idxrlog", "def":
		use := via != "scan"
		order := map[string]string{"scan": "", "idx": "file", "idxlog": "log", "idxrlog": "rlog", "def": ""}[via]
		useP := &use
		if via == "def" { // Reader.Messages() with its defaults: the index when the summary allows it, else the scan
			useP = nil
		}
		ir := run.Iterate(src, run.IterOpts{UseIndex: useP, Order: order, MdCallback: true})
		for _, t := range ir.Msgs {
			o.kinds = append(o.kinds, "Message")
			o.short = append(o.short, false)
			o.canon = append(o.canon, canon(t))
		}
		o.mds = len(ir.Mds)
		o.end, o.err = ir.End, ir.Err
	}
	return o
}

// matchIdx maps every observed token to the index (1-based) of the equal token
// of the full read, searching forward from the previous match; 0 = no equal
// token; -1 = invalid-chunk token; attachments with short data match the
// attachment whose other fields and data prefix agree (reported via short).
func matchIdx(full, obs *obsRead, fullToks []any) []any {
	out := make([]any, 0, len(obs.canon))
	next := 0
	for i, c := range obs.canon {
		if obs.kinds[i] == "InvalidChunk" {
			out = append(out, -1)
			continue
		}
		found := 0
		for k := next; k < len(full.canon); k++ {
			if full.canon[k] == c {
				found = k + 1
				break
			}
		}
		if found == 0 && obs.kinds[i] == "Attachment" && i < len(obs.toks) && fullToks != nil {
			// degraded attachment (cut or fault inside its data or CRC): the fields agree, the data is a
			// prefix, the CRC may be unreadable; reported through the "short" list
			obs.short[i] = true
			for k := next; k < len(full.canon); k++ {
				if full.kinds[k] == "Attachment" && attPrefix(obs.toks[i], fullToks[k].(map[string]any)) {
					found = k + 1
					break
				}
			}
		}
		if found > 0 {
			next = found
		}
		out = append(out, found)
	}
	return out
}

func attPrefix(a, b map[string]any) bool {
	for _, f := range []string{"log", "create", "name", "media", "dsize"} {
		if canon(a[f]) != canon(b[f]) {
			return false
		}
	}
	return bytes.HasPrefix([]byte(b["data"].(wl.Blob)), []byte(a["data"].(wl.Blob)))
}

type lexFull struct {
	o    *obsRead
	toks []any
}

func fullLex(b []byte, validate, skipMagic bool) *lexFull {
	lr := run.LexAll(bytes.NewReader(b), run.LexOpts{SkipMagic: skipMagic, Validate: validate, AttCRC: true, Attachments: true})
	o := &obsRead{end: lr.End, err: lr.Err}
	for _, t := range lr.Toks {
		m := t.(map[string]any)
		o.kinds = append(o.kinds, m["k"].(string))
		o.short = append(o.short, false)
		o.canon = append(o.canon, canon(m))
	}
	return &lexFull{o, lr.Toks}
}

func kindsAny(k []string) []any {
	out := make([]any, len(k))
	for i, s := range k {
		out[i] = s
	}
	return out
}

func anyShort(o *obsRead) []any {
	out := []any{}
	for i, s := range o.short {
		if s {
			out = append(out, i+1)
		}
	}
	return out
}

// readEvent runs one read and renders it relative to the full read.
func readEvent(ev string, src io.Reader, via string, validate, emitInvalid, skipMagic bool, full *obsRead, fullToks []any, extra wl.Ev) wl.Ev {
	o := readVia(src, via, validate, emitInvalid, skipMagic)
	e := wl.Ev{"ev": ev, "via": via, "validate": validate, "n": len(o.canon), "idx": matchIdx(full, o, fullToks),
		"end": o.end, "short": anyShort(o), "why": errStr(o.err), "sentinel": o.err != nil && errors.Is(o.err, run.ErrInjected)}
	for k, v := range extra {
		e[k] = v
	}
	return e
}

func rrun(args []string) error {
	fs := flag.NewFlagSet("rrun", flag.ExitOnError)
	seed := fs.Int64("seed", 1, "seed")
	n := fs.Int("n", 4, "number of files")
	size := fs.Int("size", 8, "data calls per workload")
	out := fs.String("out", "trace.ndjson", "trace output")
	wlout := fs.String("wl", "", "concrete workloads output")
	mode := fs.String("mode", "cut", "cut | frag | fault | flip")
	in := fs.String("in", "", "replay: concrete workload file")
	only := fs.String("only", "", "replay: restrict to one case, e.g. cut=123")
	fs.Parse(args)

	tf, err := os.Create(*out)
	if err != nil {
		return err
	}
	defer tf.Close()
	o := &outFiles{trace: bufio.NewWriterSize(tf, 1<<20)}
	defer o.trace.Flush()
	if *wlout != "" {
		wf, err := os.Create(*wlout)
		if err != nil {
			return err
		}
		defer wf.Close()
		o.wls = bufio.NewWriterSize(wf, 1<<20)
		defer o.wls.Flush()
	}
	var wls []wl.Workload
	if *in != "" {
		b, err := os.ReadFile(*in)
		if err != nil {
			return err
		}
		for _, line := range bytes.Split(b, []byte("\n")) {
			if len(bytes.TrimSpace(line)) == 0 {
				continue
			}
			var w wl.Workload
			if err := json.Unmarshal(line, &w); err != nil {
				return err
			}
			wls = append(wls, w)
		}
	} else {
		g := gen.New(*seed)
		g.NoHuge = true
		comps := []string{"", "zstd", "lz4"}
		for i := 0; i < *n; i++ {
			c := g.Cfg()
			c.SkipMagic = false
			c.Compression = comps[i%3]
			c.Chunked = i%4 != 3
			c.ChunkSize = []int64{60, 150, 1 << 20}[g.R.Intn(3)]
			if *mode == "flip" || *mode == "overwrite" {
				c.CRC = true
				c.Chunked = true
			}
			w := wl.Workload{ID: fmt.Sprintf("%s%d-%d", *mode, *seed, i), Cfg: c, Calls: g.Calls(*size, c.ChunkSize)}
			wls = append(wls, w)
		}
	}
	for _, w := range wls {
		if o.wls != nil {
			b, _ := json.Marshal(w)
			o.wls.Write(b)
			o.wls.WriteByte('\n')
		}
		variants := []string{""}
		if (*mode == "flip" || *mode == "overwrite") && *in == "" {
			variants = append(variants, "mixedcrc")
		}
		if strings.HasSuffix(w.ID, "-mixedcrc") { // replay of a variant
			variants = []string{"mixedcrc"}
			w.ID = strings.TrimSuffix(w.ID, "-mixedcrc")
		}
		for _, variant := range variants {
			w2 := w
			if variant != "" {
				w2.ID = w.ID + "-" + variant
			}
			tr := wl.NewTrace()
			var buf bytes.Buffer
			run.RunWriter(tr, w2, nil, &buf)
			b := append([]byte{}, buf.Bytes()...)
			f := run.DecodeForTrace(b)
			if variant == "mixedcrc" {
				// a legal file in which only some chunks carry a checksum: the CRC field of every second chunk, starting with
				// the first, is set to zero ("not available"); damage is then applied to the chunks that still carry one
				nc := 0
				for _, r := range f.Recs {
					if r.Op == refmcap.OpChunk && r.OK {
						if nc%2 == 0 {
							copy(b[r.Pos+9+24:r.Pos+9+28], []byte{0, 0, 0, 0})
						}
						nc++
					}
				}
				if nc < 2 {
					continue
				}
				f = run.DecodeForTrace(b)
			}
			tr.Add(wl.FileEv(f))
			tr.Add(lfileEv(f))
			if err := readCases(tr, *mode, *only, w2, b, f, *seed); err != nil {
				return err
			}
			tr.Add(wl.Ev{"ev": "End"})
			if err := o.emit(tr); err != nil {
				return err
			}
		}
	}
	return nil
}

// parallel evaluates the jobs on all CPUs and returns the events in job order.
func parallel(jobs []func() wl.Ev) []wl.Ev {
	out := make([]wl.Ev, len(jobs))
	var wg sync.WaitGroup
	ch := make(chan int, 256)
	for k := 0; k < runtime.NumCPU(); k++ {
		wg.Add(1)
		go func() {
			defer wg.Done()
			for i := range ch {
				if atomic.LoadInt32(&hangs) >= 24 {
					// the tree hangs on many inputs: two dozen witnesses are enough, the rest of this file's cases is not run
					out[i] = wl.Ev{"ev": "Skipped"}
					continue
				}
				out[i] = jobs[i]()
			}
		}()
	}
	for i := range jobs {
		ch <- i
	}
	close(ch)
	wg.Wait()
	return out
}

// lfileEv describes the file in the vocabulary of Lexer.tla: records with their byte lengths, chunks with header
// length, sizes, compression class and the lengths of their inner records, attachments with the length of their
// fixed part and of their data.
func lfileEv(f *refmcap.File) wl.Ev {
	recs := []any{}
	for _, r := range f.Recs {
		e := map[string]any{"k": refmcap.KindOf(r.Op), "len": r.Len}
		switch r.Op {
		case refmcap.OpChunk:
			comp := "none"
			if len(r.Compression) > 0 {
				comp = "z"
			}
			inner := []any{}
			for _, in := range r.Inner {
				inner = append(inner, map[string]any{"k": refmcap.KindOf(in.Op), "len": in.Len})
			}
			e["comp"], e["hdr"], e["usize"], e["csize"], e["inner"] = comp, r.Len-r.CSize, r.USize, r.CSize, inner
		case refmcap.OpAttachment:
			e["fixed"], e["dsize"], e["namelen"], e["medialen"] = r.Len-r.DataSize-4, r.DataSize, len(r.Name), len(r.MediaType)
		}
		recs = append(recs, e)
	}
	return wl.Ev{"ev": "LFile", "recs": recs}
}

func want(only, key string, v int) bool {
	if only == "" {
		return true
	}
	return strings.Contains(","+only+",", fmt.Sprintf(",%s=%d,", key, v))
}

func readCases(tr *wl.Trace, mode, only string, w wl.Workload, b []byte, f *refmcap.File, seed int64) error {
	type ref struct {
		via      string
		validate bool
		o        *obsRead
		toks     []any
	}
	var refs []ref
	for _, v := range []bool{false, true} {
		fl := fullLex(b, v, false)
		refs = append(refs, ref{"lex", v, fl.o, fl.toks})
		tr.Add(wl.Ev{"ev": "Full", "via": "lex", "validate": v, "n": len(fl.o.canon), "kinds": kindsAny(fl.o.kinds), "end": fl.o.end})
	}
	vias := []string{"scan"}
	if mode == "frag" || mode == "fault" || mode == "callfault" {
		vias = append(vias, "idx", "idxlog")
	}
	if mode == "callfault" {
		vias = append(vias, "def")
	}
	for _, via := range vias {
		fo := readVia(bytes.NewReader(b), via, false, false, false)
		refs = append(refs, ref{via, false, fo, nil})
		tr.Add(wl.Ev{"ev": "Full", "via": via, "validate": false, "n": len(fo.canon), "kinds": kindsAny(fo.kinds), "end": fo.end, "why": errStr(fo.err)})
	}
	var jobs []func() wl.Ev
	add := func(j func() wl.Ev) { jobs = append(jobs, j) }
	defer func() {
		for _, e := range parallel(jobs) {
			tr.Add(e)
		}
	}()
	switch mode {
	case "cut":
		for cut := 0; cut < len(b); cut++ {
			if !want(only, "cut", cut) {
				continue
			}
			for _, r := range refs {
				r, cut := r, cut
				add(func() wl.Ev {
					return readEvent("Cut", run.StreamOnly{S: run.NewSource(b[:cut], "full", 0, -1)}, r.via, r.validate, false, false, r.o, r.toks, wl.Ev{"cut": cut})
				})
			}
		}
	case "frag":
		for pi, pol := range []string{"one", "halving", "random", "eof"} {
			for _, r := range refs {
				if !want(only, "frag", pi) {
					continue
				}
				src := run.NewSource(b, pol, seed+int64(pi), -1)
				var rd io.Reader = src
				seekable := strings.HasPrefix(r.via, "idx")
				if !seekable {
					rd = run.StreamOnly{S: src}
				}
				tr.Add(readEvent("Frag", rd, r.via, r.validate, false, false, r.o, r.toks, wl.Ev{"policy": pol, "seekable": seekable}))
				if r.via == "lex" || r.via == "scan" { // the same path over a seekable source (attachments are skipped by seeking)
					src2 := run.NewSource(b, pol, seed+int64(pi), -1)
					tr.Add(readEvent("Frag", src2, r.via, r.validate, false, false, r.o, r.toks, wl.Ev{"policy": pol, "seekable": true}))
				}
			}
		}
	case "fault":
		for at := 0; at <= len(b); at++ { // at == len(b): an I/O error in place of end-of-file
			if !want(only, "at", at) {
				continue
			}
			for _, r := range refs {
				r, at := r, at
				add(func() wl.Ev {
					src := run.NewSource(b, "full", 0, int64(at))
					var rd io.Reader = src
					seekable := strings.HasPrefix(r.via, "idx")
					if !seekable {
						rd = run.StreamOnly{S: src}
					}
					e := readEvent("Fault", rd, r.via, r.validate, false, false, r.o, r.toks, wl.Ev{"at": at, "seekable": seekable})
					e["fired"] = src.Fired
					return e
				})
			}
		}
	case "callfault":
		// a one-shot or persistent I/O error at the k-th call on the source, Seek calls included (seekable sources only:
		// the stream-only paths see nothing that the byte-position faults do not already cover)
		for _, r := range refs {
			if r.via == "lex" {
				continue
			}
			seekable := r.via != "scan" || true
			probe := run.NewSource(b, "full", 0, -1)
			readVia(probe, r.via, r.validate, false, false)
			W := probe.Calls
			for k := 0; k < W; k++ {
				if !want(only, "call", k) {
					continue
				}
				for _, perm := range []bool{false, true} {
					r, k, perm := r, k, perm
					add(func() wl.Ev {
						src := run.NewSource(b, "full", 0, -1)
						src.FaultCall, src.FaultPermanent = k, perm
						e := readEvent("Fault", src, r.via, r.validate, false, false, r.o, r.toks, wl.Ev{"at": -1, "call": k, "permanent": perm, "seekable": seekable})
						e["fired"] = src.Fired
						e["onseek"] = src.FiredOnSeek
						return e
					})
				}
			}
		}
	case "flip":
		full := refs[1] // lexer with validation
		ri := 0
		for _, rec := range f.Recs {
			ri++
			var from, to uint64
			target := ""
			switch {
			case rec.Op == refmcap.OpChunk && rec.OK && rec.CRC == 0:
				continue // no checksum to validate against: damage to this chunk cannot be noticed, and C07 does not ask for it
			case rec.Op == refmcap.OpChunk && rec.OK:
				from, to, target = rec.RecordsPos, rec.RecordsPos+rec.CSize, "chunk"
			case rec.Op == refmcap.OpAttachment && rec.OK:
				from, to, target = rec.Pos+9, rec.Pos+rec.Len-4, "att"
			default:
				continue
			}
			for p := from; p < to; p++ {
				for bit := 0; bit < 8; bit++ {
					if !want(only, "flip", int(p)*8+bit) {
						continue
					}
					for _, emitInvalid := range []bool{false, true} {
						if target == "att" && emitInvalid {
							continue
						}
						for _, via := range []string{"lex", "lexc"} {
							if via == "lexc" && (target == "att" || len(rec.Compression) == 0 || bit%3 != 0) {
								continue // caller-supplied decoders: compressed chunks, every third bit
							}
							p, bit, emitInvalid, ri, target, via := p, bit, emitInvalid, ri, target, via
							add(func() wl.Ev {
								mut := append([]byte{}, b...)
								mut[p] ^= 1 << bit
								o := readVia(bytes.NewReader(mut), via, true, emitInvalid, false)
								e := wl.Ev{"ev": "Flip", "via": via, "target": target, "rec": ri, "pos": p, "bit": bit, "emitInvalid": emitInvalid, "n": len(o.canon),
									"idx": matchIdx(full.o, o, full.toks), "end": o.end, "why": errStr(o.err)}
								if target == "att" {
									// the token standing where the attachment stood: exposed iff an error ended the read first or its CRCs disagree
									e["attseen"], e["attmatch"] = attachmentAt(mut, ri, f)
								}
								return e
							})
						}
					}
				}
			}
		}
	case "overwrite":
		// seeded multi-byte overwrites and byte-range swaps inside chunk payloads
		full := refs[1]
		rng := rand.New(rand.NewSource(seed ^ int64(len(b))))
		ri := 0
		for _, rec := range f.Recs {
			ri++
			if rec.Op != refmcap.OpChunk || !rec.OK || rec.CSize < 4 || rec.CRC == 0 {
				continue
			}
			for k := 0; k < 200; k++ {
				mut := append([]byte{}, b...)
				from, size := rec.RecordsPos, rec.CSize
				a := from + uint64(rng.Intn(int(size)))
				n := uint64(1 + rng.Intn(8))
				if a+n > from+size {
					n = from + size - a
				}
				if k%2 == 0 {
					for i := uint64(0); i < n; i++ {
						mut[a+i] = byte(rng.Intn(256))
					}
				} else {
					c := from + uint64(rng.Intn(int(size-n+1)))
					tmp := append([]byte{}, mut[a:a+n]...)
					copy(mut[a:a+n], b[c:c+n])
					copy(mut[c:c+n], tmp)
				}
				if bytes.Equal(mut, b) {
					continue
				}
				for _, emitInvalid := range []bool{false, true} {
					via := "lex"
					if len(rec.Compression) > 0 && k%4 >= 2 {
						via = "lexc"
					}
					emitInvalid, ri, a, mut, via := emitInvalid, ri, a, mut, via
					add(func() wl.Ev {
						o := readVia(bytes.NewReader(mut), via, true, emitInvalid, false)
						return wl.Ev{"ev": "Flip", "via": via, "target": "chunk", "rec": ri, "pos": a, "bit": -1, "emitInvalid": emitInvalid, "n": len(o.canon),
							"idx": matchIdx(full.o, o, full.toks), "end": o.end, "why": errStr(o.err)}
					})
				}
			}
		}
	default:
		return fmt.Errorf("unknown mode %q", mode)
	}
	return nil
}

// attachmentAt lexes mut and reports whether the n-th attachment (the one at
// record index ri of the original file) was delivered, and whether its
// computed CRC equalled the stored one.
func attachmentAt(mut []byte, ri int, f *refmcap.File) (seen bool, match bool) {
	nth := 0
	for i, r := range f.Recs {
		if r.Op == refmcap.OpAttachment {
			nth++
		}
		if i+1 == ri {
			break
		}
	}
	lr := run.LexAll(bytes.NewReader(mut), run.LexOpts{Validate: true, AttCRC: true, Attachments: true})
	k := 0
	for _, t := range lr.Toks {
		m := t.(map[string]any)
		if m["k"] == "Attachment" {
			k++
			if k == nth {
				return true, m["crcmatch"].(bool) && !m["dataerr"].(bool)
			}
		}
	}
	return false, false
}
