package main

import (
	"bufio"
	"bytes"
	"encoding/json"
	"flag"
	"fmt"
	"os"
	"strings"

	"verifharness/gen"
	"verifharness/run"
	"verifharness/wl"
)

func init() { commands["wrun"] = wrun }

type outFiles struct {
	trace *bufio.Writer
	wls   *bufio.Writer
}

func (o *outFiles) emit(tr *wl.Trace) error {
	lines, err := tr.Flush()
	if err != nil {
		return err
	}
	for _, l := range lines {
		o.trace.Write(l)
		o.trace.WriteByte('\n')
	}
	return nil
}

// writerTrace runs one workload and records calls, the decoded file and the
// sequential reads of it.
func writerTrace(w wl.Workload, reads string) (*wl.Trace, []byte) {
	tr := wl.NewTrace()
	var buf bytes.Buffer
	res := run.RunWriter(tr, w, nil, &buf)
	_ = res
	b := buf.Bytes()
	f := run.DecodeForTrace(b)
	tr.Add(wl.FileEv(f))
	csizes := []any{}
	for _, r := range f.Recs {
		if r.Op == 6 && r.OK {
			csizes = append(csizes, r.CSize)
		}
	}
	tr.SetFirst("csizes", csizes)
	if strings.Contains(reads, "lex") {
		lr := run.LexAll(bytes.NewReader(b), run.LexOpts{SkipMagic: w.Cfg.SkipMagic, Validate: true, AttCRC: true, Attachments: true})
		tr.Add(wl.Ev{"ev": "Lex", "attcrc": true, "toks": lr.Toks, "end": lr.End, "why": errStr(lr.Err)})
		lr2 := run.LexAll(bytes.NewReader(b), run.LexOpts{SkipMagic: w.Cfg.SkipMagic, Attachments: true})
		tr.Add(wl.Ev{"ev": "Lex", "attcrc": false, "toks": lr2.Toks, "end": lr2.End, "why": errStr(lr2.Err)})
		// records handed out by the lexer into memory it provides itself stay as they were (validation on / off, nil / undersized buffer)
		for _, validate := range []bool{false, true} {
			for _, small := range []bool{false, true} {
				rr := run.LexRetain(b, w.Cfg.SkipMagic, validate, small)
				tr.Add(wl.Ev{"ev": "LexRetain", "validate": validate, "small": small, "n": rr.N, "changed": rr.Changed, "end": rr.End})
			}
		}
		// lexers built from one options value (one Decompressors map) return what a lexer with its own options returns
		for _, validate := range []bool{false, true} {
			if w.Cfg.Chunked && w.Cfg.Compression == "xor" {
				break // needs the custom decompressor object, which cannot serve two lexers at once
			}
			rr := run.LexShared(b, w.Cfg.SkipMagic, validate)
			tr.Add(wl.Ev{"ev": "LexRetain", "via": "shared-options", "validate": validate, "small": false, "n": rr.N, "changed": rr.Changed, "end": rr.End})
		}
	}
	// Reader has no option to skip the magic or to supply a decompressor: those files are read with the lexer only
	if strings.Contains(reads, "scan") && !w.Cfg.SkipMagic && !(w.Cfg.Chunked && w.Cfg.Compression == "xor") {
		no := false
		ir := run.Iterate(bytes.NewReader(b), run.IterOpts{UseIndex: &no, MdCallback: true})
		tr.Add(wl.Ev{"ev": "Scan", "msgs": ir.Msgs, "mds": ir.Mds, "end": ir.End, "why": errStr(ir.Err)})
		st := run.RetainCheck(b)
		tr.Add(wl.Ev{"ev": "Retain", "n": st.N, "changed": st.Changed, "end": st.End})
		rg := run.RangeCount(b)
		tr.Add(wl.Ev{"ev": "Retain", "via": "range", "n": rg.N, "changed": rg.Changed, "end": rg.End})
		// the caller supplies the memory (a buffer per call, two Messages taking turns) and keeps what it was handed
		// (the default read only where the summary carries what an index-based read needs: elsewhere it may end with an error)
		idxok := w.Cfg.Chunked && !w.Cfg.SkipChunkIdx && !w.Cfg.SkipRepChannels && !w.Cfg.SkipRepSchemas
		for _, c := range w.Calls {
			if c.Op == "chunk" || c.Op == "addschema" || c.Op == "addchannel" {
				idxok = false // remuxing workloads may leave channels out of the summary on purpose
			}
		}
		for _, scan := range []bool{true, false} {
			if !scan && !idxok {
				continue
			}
			for _, mode := range []string{"buf", "into2"} {
				rv := run.RetainVia(b, scan, mode)
				tr.Add(wl.Ev{"ev": "Retain", "via": fmt.Sprintf("%s-scan=%v", mode, scan), "n": rv.N, "changed": rv.Changed, "end": rv.End})
			}
		}
	}
	tr.Add(wl.Ev{"ev": "End"})
	return tr, b
}

func errStr(err error) string {
	if err == nil {
		return ""
	}
	s := err.Error()
	if len(s) > 200 {
		s = s[:200]
	}
	return s
}

func wrun(args []string) error {
	fs := flag.NewFlagSet("wrun", flag.ExitOnError)
	seed := fs.Int64("seed", 1, "seed")
	n := fs.Int("n", 100, "number of random workloads")
	size := fs.Int("size", 12, "data calls per workload")
	out := fs.String("out", "trace.ndjson", "trace output")
	wlout := fs.String("wl", "", "write the concrete workloads here (ndjson)")
	mode := fs.String("mode", "random", "random | flags | file")
	in := fs.String("in", "", "concrete workload file (mode=file) ")
	reads := fs.String("reads", "lex,scan", "reads to perform on each file")
	fs.Parse(args)

	tf, err := os.Create(*out)
	if err != nil {
		return err
	}
	defer tf.Close()
	o := &outFiles{trace: bufio.NewWriterSize(tf, 1<<20)}
	defer o.trace.Flush()
	if *wlout != "" {
		wf, err := os.Create(*wlout)
		if err != nil {
			return err
		}
		defer wf.Close()
		o.wls = bufio.NewWriterSize(wf, 1<<20)
		defer o.wls.Flush()
	}
	do := func(w wl.Workload) error {
		if o.wls != nil {
			b, _ := json.Marshal(w)
			o.wls.Write(b)
			o.wls.WriteByte('\n')
		}
		tr, _ := writerTrace(w, *reads)
		return o.emit(tr)
	}
	switch *mode {
	case "random":
		g := gen.New(*seed)
		for i := 0; i < *n; i++ {
			sz := *size
			if i%10 == 9 {
				sz *= 4
			}
			g.Refusals = i%4 == 1 // calls the writer must refuse (unknown channel, unknown schema) mixed in
			w := g.Workload(fmt.Sprintf("r%d-%d", *seed, i), sz)
			g.Refusals = false
			if i%5 == 2 { // channels re-announced after messages that use them
				w.Calls = g.Reannounce(w.Calls)
			}
			if err := do(w); err != nil {
				return err
			}
		}
	case "bulk":
		// large chunks (hundreds of KiB to MiB, so that the codecs stream them in several blocks / frames) under every
		// built-in compression x compression level; n bounds the number of configurations
		g := gen.New(*seed)
		k := 0
		for _, cs := range []int64{0, 300 << 10, 4 << 20} {
			for _, comp := range []string{"zstd", "lz4", ""} {
				for level := 0; level < 4; level++ {
					if comp == "" && level > 0 {
						continue
					}
					if k >= *n {
						break
					}
					k++
					c := wl.Cfg{Chunked: true, ChunkSize: cs, Compression: comp, Level: level, CRC: k%2 == 0}
					if err := do(wl.Workload{ID: fmt.Sprintf("bulk%d-%s-%d-%d", *seed, comp, level, cs), Cfg: c, Calls: g.BulkCalls(*size)}); err != nil {
						return err
					}
				}
			}
		}
		// one message far larger than the chunk size (1.2-3 MiB against 1-64 KiB) among small ones, under every compression
		for i, comp := range []string{"", "zstd", "lz4", "", "xor", ""} {
			if i >= *n {
				break
			}
			c := wl.Cfg{Chunked: true, ChunkSize: []int64{1024, 4096, 65536, 512, 2048, 1 << 20}[i], Compression: comp, CRC: i%2 == 0}
			bigKiB := 1200 + g.R.Intn(1800)
			if c.ChunkSize == 1<<20 {
				bigKiB = 4400
			}
			if err := do(wl.Workload{ID: fmt.Sprintf("oversized%d-%d", *seed, i), Cfg: c, Calls: g.OversizedCalls([]int{0, 5, 17}[i%3], bigKiB)}); err != nil {
				return err
			}
		}
	case "asm":
		// remuxing workloads: chunks assembled by the caller, AddSchema / AddChannel (every 8th leaves channels unregistered)
		g := gen.New(*seed)
		for i := 0; i < *n; i++ {
			if err := do(g.AsmWorkload(fmt.Sprintf("a%d-%d", *seed, i), *size, i%8 == 7)); err != nil {
				return err
			}
		}
	case "flags":
		// every combination of the ten flags x {unchunked, chunked-none} on n base workloads
		g := gen.New(*seed)
		for k := 0; k < *n; k++ {
			calls := g.RichCalls(*size, 120)
			for _, chunked := range []bool{false, true} {
				for m := 0; m < 1024; m++ {
					c := gen.FlagCfg(wl.Cfg{Chunked: chunked, ChunkSize: 120, CRC: m%2 == 0 || k%2 == 0}, m)
					if err := do(wl.Workload{ID: fmt.Sprintf("f%d-%d-%v-%d", *seed, k, chunked, m), Cfg: c, Calls: calls}); err != nil {
						return err
					}
				}
			}
		}
	case "file":
		f, err := os.Open(*in)
		if err != nil {
			return err
		}
		defer f.Close()
		sc := bufio.NewScanner(f)
		sc.Buffer(make([]byte, 1<<20), 1<<28)
		for sc.Scan() {
			if len(bytes.TrimSpace(sc.Bytes())) == 0 {
				continue
			}
			var w wl.Workload
			if err := json.Unmarshal(sc.Bytes(), &w); err != nil {
				return fmt.Errorf("bad workload: %w", err)
			}
			if err := do(w); err != nil {
				return err
			}
		}
		return sc.Err()
	case "abstract":
		// behaviours exported by TLC from WriterMC (one JSON object per line)
		f, err := os.Open(*in)
		if err != nil {
			return err
		}
		defer f.Close()
		sc := bufio.NewScanner(f)
		sc.Buffer(make([]byte, 1<<20), 1<<28)
		i := 0
		for sc.Scan() {
			if len(bytes.TrimSpace(sc.Bytes())) == 0 {
				continue
			}
			var b gen.AbsBehaviour
			if err := json.Unmarshal(sc.Bytes(), &b); err != nil {
				return fmt.Errorf("bad behaviour: %w", err)
			}
			if err := do(gen.Concretise(fmt.Sprintf("b%d-%d", *seed, i), b, *seed+int64(i))); err != nil {
				return err
			}
			i++
		}
		return sc.Err()
	default:
		return fmt.Errorf("unknown mode %q", *mode)
	}
	return nil
}
