package main

import (
	"bufio"
	"bytes"
	"encoding/base64"
	"encoding/json"
	"flag"
	"fmt"
	"math/rand"
	"os"
	"os/exec"
	"path/filepath"
	"strconv"
	"strings"

	"verifharness/gen"
	"verifharness/run"
	"verifharness/wl"
)

func init() { commands["xrun"] = xrun }

// ---- what observe.py prints

type pyBlob string

func (b pyBlob) bytes() []byte { x, _ := base64.StdEncoding.DecodeString(string(b)); return x }

type pySchema struct{ ID, Name, Enc, Data string }
type pyChannel struct {
	ID, Schema, Topic, Menc string
	MD                      [][2]string
}
type pyMessage struct{ Ch, Seq, Log, Pub, Data string }
type pyTriple struct {
	Schema  *pySchema `json:"schema"`
	Channel pyChannel `json:"channel"`
	Msg     pyMessage `json:"msg"`
}
type pyAtt struct{ Log, Create, Name, Media, Data string }
type pyMd struct {
	Name string
	MD   [][2]string
}
type pyStats struct {
	Msgs, Schemas, Channels, Atts, Mds, Chunks, Start, End string
	Per                                                    [][2]string
}
type pyRead struct {
	Via, Order, End, Why string
	Msgs                 []pyTriple
	Atts                 []pyAtt
	Mds                  []pyMd
	Header               *struct{ Profile, Library string }
	Stats                *pyStats
	HasAtts              bool `json:"hasatts"`
	HasMds               bool `json:"hasmds"`
}
type pyResult struct {
	ID    string
	Reads []pyRead
}

func u64(s string) uint64 { v, _ := strconv.ParseUint(s, 10, 64); return v }
func blobOf(s string) wl.Blob {
	b, _ := base64.StdEncoding.DecodeString(s)
	return wl.Blob(b)
}
func pyMapEv(m [][2]string) []any {
	kvs := make([]wl.KV, 0, len(m))
	for _, p := range m {
		kvs = append(kvs, wl.KV{K: blobOf(p[0]), V: blobOf(p[1])})
	}
	return run.MdEv(kvs)
}

func pyReadEv(r pyRead) wl.Ev {
	e := wl.Ev{"ev": "PyRead", "via": r.Via, "order": r.Order, "end": r.End, "why": r.Why, "hasatts": r.HasAtts, "hasmds": r.HasMds}
	msgs := []any{}
	for _, t := range r.Msgs {
		var s any = map[string]any{"k": "None"}
		if t.Schema != nil {
			s = map[string]any{"k": "Schema", "id": int(u64(t.Schema.ID)), "name": blobOf(t.Schema.Name), "enc": blobOf(t.Schema.Enc), "data": blobOf(t.Schema.Data)}
		}
		c := map[string]any{"k": "Channel", "id": int(u64(t.Channel.ID)), "schema": int(u64(t.Channel.Schema)), "topic": blobOf(t.Channel.Topic),
			"menc": blobOf(t.Channel.Menc), "md": pyMapEv(t.Channel.MD)}
		m := map[string]any{"k": "Message", "ch": int(u64(t.Msg.Ch)), "seq": wl.Seq(uint32(u64(t.Msg.Seq))), "log": wl.Tm(u64(t.Msg.Log)), "pub": wl.Tm(u64(t.Msg.Pub)), "data": blobOf(t.Msg.Data)}
		msgs = append(msgs, map[string]any{"schema": s, "channel": c, "msg": m})
	}
	e["msgs"] = msgs
	atts := []any{}
	for _, a := range r.Atts {
		d := blobOf(a.Data)
		atts = append(atts, map[string]any{"log": wl.Tm(u64(a.Log)), "create": wl.Tm(u64(a.Create)), "name": blobOf(a.Name), "media": blobOf(a.Media), "data": d, "dsize": uint64(len(d))})
	}
	e["atts"] = atts
	mds := []any{}
	for _, m := range r.Mds {
		mds = append(mds, map[string]any{"name": blobOf(m.Name), "md": pyMapEv(m.MD)})
	}
	e["mds"] = mds
	if r.Header != nil {
		e["header"] = []any{map[string]any{"profile": blobOf(r.Header.Profile), "library": blobOf(r.Header.Library)}}
	} else {
		e["header"] = []any{}
	}
	if r.Stats != nil {
		per := []any{}
		for _, p := range r.Stats.Per {
			per = append(per, map[string]any{"ch": int(u64(p[0])), "n": u64(p[1])})
		}
		e["stats"] = []any{map[string]any{"msgs": u64(r.Stats.Msgs), "schemas": int(u64(r.Stats.Schemas)), "channels": u64(r.Stats.Channels), "atts": u64(r.Stats.Atts),
			"mds": u64(r.Stats.Mds), "chunks": u64(r.Stats.Chunks), "start": wl.Tm(u64(r.Stats.Start)), "end": wl.Tm(u64(r.Stats.End)), "per": per}}
	} else {
		e["stats"] = []any{}
	}
	return e
}

// pyWorkload draws a workload the Python writer can express: ids are assigned sequentially, strings are valid UTF-8.
func pyWorkload(g *gen.G, id string, n int) wl.Workload {
	calls := []wl.Call{{Op: "header", Profile: g.Str(), Library: g.Str()}}
	ns, nc := uint16(0), uint16(0)
	var chans []uint16
	var last uint16
	seq := uint32(0)
	t := g.Time()
	for i := 0; i < n; i++ {
		r := g.R.Intn(20)
		switch {
		case r < 2:
			ns++
			calls = append(calls, wl.Call{Op: "schema", ID: ns, Name: g.Str(), Enc: g.Str(), Data: g.Payload(0)})
		case r < 5 || nc == 0:
			nc++
			var sid uint16
			if ns > 0 && g.R.Intn(4) != 0 {
				sid = 1 + uint16(g.R.Intn(int(ns)))
			}
			calls = append(calls, wl.Call{Op: "channel", ID: nc, Schema: sid, Topic: g.Str(), Menc: g.Str(), MD: g.Map()})
			chans = append(chans, nc)
		case r < 16:
			seq++
			if g.R.Intn(3) == 0 {
				t = g.Time()
			} else {
				t += uint64(g.R.Intn(5))
			}
			// bursts: a channel tends to go on for a while, so that runs of one channel straddle chunk boundaries
			ch := chans[g.R.Intn(len(chans))]
			if last != 0 && g.R.Intn(3) != 0 {
				ch = last
			}
			last = ch
			calls = append(calls, wl.Call{Op: "message", Ch: ch, Seq: seq, Log: t, Pub: g.Time(), Data: g.Payload(200)})
		case r < 18:
			calls = append(calls, wl.Call{Op: "attachment", Log: g.Time(), Create: g.Time(), Name: g.Str(), Media: g.Str(), Data: g.Payload(200)})
		default:
			calls = append(calls, wl.Call{Op: "metadata", Name: g.Str(), MD: g.Map()})
		}
	}
	return wl.Workload{ID: id, Calls: append(calls, wl.Call{Op: "close"})}
}

func runPy(script, repo string, args ...string) ([]byte, error) {
	cmd := exec.Command("python3", append([]string{script, repo}, args...)...)
	cmd.Env = append(os.Environ(), "PYTHONDONTWRITEBYTECODE=1")
	var errb bytes.Buffer
	cmd.Stderr = &errb
	out, err := cmd.Output()
	if err != nil {
		return out, fmt.Errorf("%s failed: %v: %s", filepath.Base(script), err, errb.String())
	}
	return out, nil
}

// xrun exchanges files between the Go and the Python implementation (C16).
func xrun(args []string) error {
	fs := flag.NewFlagSet("xrun", flag.ExitOnError)
	seed := fs.Int64("seed", 1, "seed")
	n := fs.Int("n", 100, "number of workloads")
	size := fs.Int("size", 12, "data calls per workload")
	dir := fs.String("dir", "", "scratch directory for the files")
	repo := fs.String("repo", "/repo", "repository root")
	pydir := fs.String("py", "/verif/py", "directory of the python scripts")
	mode := fs.String("mode", "go2py", "go2py | py2go")
	out := fs.String("out", "trace.ndjson", "trace output")
	wlout := fs.String("wl", "", "workloads output")
	in := fs.String("in", "", "replay: workload file")
	fs.Parse(args)
	tf, err := os.Create(*out)
	if err != nil {
		return err
	}
	defer tf.Close()
	o := &outFiles{trace: bufio.NewWriterSize(tf, 1<<20)}
	defer o.trace.Flush()
	if *wlout != "" {
		wf, err := os.Create(*wlout)
		if err != nil {
			return err
		}
		defer wf.Close()
		o.wls = bufio.NewWriterSize(wf, 1<<20)
		defer o.wls.Flush()
	}
	g := gen.New(*seed)
	g.UTF8Only = true
	g.NoHuge = true
	var wls []wl.Workload
	var pyopts []map[string]any
	if *in != "" {
		b, err := os.ReadFile(*in)
		if err != nil {
			return err
		}
		for _, line := range bytes.Split(b, []byte("\n")) {
			if len(bytes.TrimSpace(line)) == 0 {
				continue
			}
			var x struct {
				wl.Workload
				Opts map[string]any `json:"opts"`
			}
			if err := json.Unmarshal(line, &x); err != nil {
				return err
			}
			wls = append(wls, x.Workload)
			pyopts = append(pyopts, x.Opts)
		}
	}
	switch *mode {
	case "go2py":
		if *in == "" {
			for i := 0; i < *n; i++ {
				c := g.Cfg()
				c.Compression, c.SkipMagic = "", false
				if i%2 == 0 { // the seeking readers' precondition
					c.Chunked, c.SkipChunkIdx, c.SkipRepChannels, c.SkipRepSchemas, c.SkipAttIdx, c.SkipMdIdx = true, false, false, false, false, false
				}
				w := wl.Workload{ID: fmt.Sprintf("g2p%d-%d", *seed, i), Cfg: c, Calls: g.Calls(*size, c.ChunkSize)}
				uniqueSeqs(&w)
				wls = append(wls, w)
			}
			// two recordings with records of several hundred KiB (larger than what one read of a pipe or socket delivers):
			// they are also handed to the streaming reader through a raw, unbuffered pipe
			for k, chunked := range []bool{false, true} {
				w := wl.Workload{ID: fmt.Sprintf("g2pbig%d-%d", *seed, k), Cfg: wl.Cfg{Chunked: chunked, ChunkSize: 1 << 20, CRC: true}, Calls: g.BulkCalls(1500)}
				wls = append(wls, w)
			}
			// one recording with single fields above 16 MiB (a message in the middle of its chunk, an attachment): whatever block
			// size a reader fetches large fields in, the records after them are still there and the CRCs still match
			{
				huge := make([]byte, 17<<20+12345)
				g.R.Read(huge[:1<<20])
				copy(huge[9<<20:], huge[:1<<20])
				small := func(i int) wl.Call {
					return wl.Call{Op: "message", Ch: 1, Seq: uint32(i), Log: uint64(10 + i), Pub: uint64(i), Data: []byte{byte(i), 2, 3}}
				}
				w := wl.Workload{ID: fmt.Sprintf("g2phuge%d", *seed), Cfg: wl.Cfg{Chunked: true, ChunkSize: 64 << 20, CRC: true}, Calls: []wl.Call{
					{Op: "header", Profile: []byte("huge")}, {Op: "channel", ID: 1, Topic: []byte("/t"), Menc: []byte("m")},
					small(1), {Op: "message", Ch: 1, Seq: 2, Log: 12, Pub: 2, Data: huge}, small(3), small(4),
					{Op: "attachment", Log: 5, Name: []byte("big"), Media: []byte("m"), Data: huge[:17<<20+1]}, small(5), {Op: "close"}}}
				wls = append(wls, w)
			}
		}
		type job struct {
			ID      string `json:"id"`
			Path    string `json:"path"`
			Seek    bool   `json:"seek"`
			SeekAtt bool   `json:"seek_att"`
			SeekMd  bool   `json:"seek_md"`
			RawPipe bool   `json:"rawpipe"`
		}
		var jobs []job
		traces := map[string]*wl.Trace{}
		for _, w := range wls {
			if o.wls != nil {
				b, _ := json.Marshal(w)
				o.wls.Write(b)
				o.wls.WriteByte('\n')
			}
			tr := wl.NewTrace()
			var buf bytes.Buffer
			run.RunWriter(tr, w, nil, &buf)
			fb := buf.Bytes()
			tr.Add(wl.FileEv(run.DecodeForTrace(fb)))
			p := filepath.Join(*dir, w.ID+".mcap")
			if err := os.WriteFile(p, fb, 0o644); err != nil {
				return err
			}
			c := w.Cfg
			idx := c.Chunked && !c.SkipChunkIdx && !c.SkipRepChannels && !c.SkipRepSchemas
			// a file without any chunk index (unchunked, or chunk indexes skipped) is served by the seeking reader through its
			// linear fallback: same messages, same three orders
			noidx := !c.Chunked || c.SkipChunkIdx
			jobs = append(jobs, job{w.ID, p, idx || noidx, idx && !c.SkipAttIdx, idx && !c.SkipMdIdx, strings.HasPrefix(w.ID, "g2pbig") || len(jobs)%10 == 3})
			traces[w.ID] = tr
		}
		jb, _ := json.Marshal(jobs)
		jp := filepath.Join(*dir, "jobs.json")
		rp := filepath.Join(*dir, "pyout.ndjson")
		if err := os.WriteFile(jp, jb, 0o644); err != nil {
			return err
		}
		if _, err := runPy(filepath.Join(*pydir, "observe.py"), *repo, jp, rp); err != nil {
			return err
		}
		rb, err := os.ReadFile(rp)
		if err != nil {
			return err
		}
		results := map[string]pyResult{}
		for _, line := range bytes.Split(rb, []byte("\n")) {
			if len(bytes.TrimSpace(line)) == 0 {
				continue
			}
			var r pyResult
			if err := json.Unmarshal(line, &r); err != nil {
				return fmt.Errorf("python output: %w", err)
			}
			results[r.ID] = r
		}
		for _, w := range wls {
			tr := traces[w.ID]
			res, ok := results[w.ID]
			if !ok {
				return fmt.Errorf("python produced no result for %s", w.ID)
			}
			for _, r := range res.Reads {
				tr.Add(pyReadEv(r))
			}
			tr.Add(wl.Ev{"ev": "End"})
			if err := o.emit(tr); err != nil {
				return err
			}
			os.Remove(filepath.Join(*dir, w.ID+".mcap"))
		}
	case "py2go":
		r := rand.New(rand.NewSource(*seed))
		if *in == "" {
			for i := 0; i < *n; i++ {
				wls = append(wls, pyWorkload(g, fmt.Sprintf("p2g%d-%d", *seed, i), *size))
				its := []string{}
				for _, t := range []string{"ATTACHMENT", "CHUNK", "MESSAGE", "METADATA"} {
					if r.Intn(4) != 0 {
						its = append(its, t)
					}
				}
				b := func() bool { return r.Intn(4) != 0 }
				pyopts = append(pyopts, map[string]any{"chunk_size": []int{1, 100, 600, 1 << 20}[r.Intn(4)], "index_types": its, "repeat_channels": b(), "repeat_schemas": b(),
					"use_chunking": b(), "use_statistics": b(), "use_summary_offsets": b(), "enable_crcs": b(), "enable_data_crcs": r.Intn(2) == 0})
			}
			// lean summaries: nothing recorded at all, or every summary group that is switched on stays empty while summary
			// offsets are on (the Python writer then writes summary_start = summary_offset_start != 0), or everything off
			noAux := func(w wl.Workload) wl.Workload {
				var cs []wl.Call
				for _, c := range w.Calls {
					if c.Op != "attachment" && c.Op != "metadata" {
						cs = append(cs, c)
					}
				}
				w.Calls = cs
				return w
			}
			lean := []struct {
				w    wl.Workload
				opts map[string]any
			}{
				{wl.Workload{Calls: []wl.Call{{Op: "header", Profile: []byte("p"), Library: []byte("l")}, {Op: "close"}}},
					map[string]any{"chunk_size": 600, "index_types": []string{"ATTACHMENT", "CHUNK", "MESSAGE", "METADATA"}, "repeat_channels": true, "repeat_schemas": true, "use_chunking": true, "use_statistics": false, "use_summary_offsets": true, "enable_crcs": true, "enable_data_crcs": true}},
				{noAux(pyWorkload(g, "", *size)),
					map[string]any{"chunk_size": 600, "index_types": []string{"ATTACHMENT", "METADATA"}, "repeat_channels": false, "repeat_schemas": false, "use_chunking": true, "use_statistics": false, "use_summary_offsets": true, "enable_crcs": true, "enable_data_crcs": false}},
				{noAux(pyWorkload(g, "", *size)),
					map[string]any{"chunk_size": 100, "index_types": []string{}, "repeat_channels": false, "repeat_schemas": false, "use_chunking": false, "use_statistics": false, "use_summary_offsets": true, "enable_crcs": false, "enable_data_crcs": false}},
				{pyWorkload(g, "", *size),
					map[string]any{"chunk_size": 100, "index_types": []string{}, "repeat_channels": false, "repeat_schemas": false, "use_chunking": true, "use_statistics": false, "use_summary_offsets": false, "enable_crcs": true, "enable_data_crcs": true}},
				{wl.Workload{Calls: []wl.Call{{Op: "header", Profile: []byte(""), Library: []byte("")}, {Op: "close"}}},
					map[string]any{"chunk_size": 600, "index_types": []string{}, "repeat_channels": false, "repeat_schemas": false, "use_chunking": false, "use_statistics": true, "use_summary_offsets": true, "enable_crcs": false, "enable_data_crcs": false}},
			}
			for k, l := range lean {
				l.w.ID = fmt.Sprintf("p2glean%d-%d", *seed, k)
				wls = append(wls, l.w)
				pyopts = append(pyopts, l.opts)
			}
		}
		wp := filepath.Join(*dir, "pywl.ndjson")
		var wb bytes.Buffer
		for i, w := range wls {
			b, _ := json.Marshal(map[string]any{"id": w.ID, "opts": pyopts[i], "calls": w.Calls})
			wb.Write(b)
			wb.WriteByte('\n')
			if o.wls != nil {
				b2, _ := json.Marshal(map[string]any{"id": w.ID, "opts": pyopts[i], "calls": w.Calls, "cfg": w.Cfg})
				o.wls.Write(b2)
				o.wls.WriteByte('\n')
			}
		}
		if err := os.WriteFile(wp, wb.Bytes(), 0o644); err != nil {
			return err
		}
		outb, err := runPy(filepath.Join(*pydir, "pywrite.py"), *repo, wp, *dir)
		if err != nil {
			return err
		}
		status := map[string]struct {
			OK  bool   `json:"ok"`
			Why string `json:"why"`
		}{}
		for _, line := range bytes.Split(outb, []byte("\n")) {
			if len(bytes.TrimSpace(line)) == 0 {
				continue
			}
			var s struct {
				ID  string `json:"id"`
				OK  bool   `json:"ok"`
				Why string `json:"why"`
			}
			if json.Unmarshal(line, &s) == nil {
				status[s.ID] = struct {
					OK  bool   `json:"ok"`
					Why string `json:"why"`
				}{s.OK, s.Why}
			}
		}
		rr := rand.New(rand.NewSource(*seed + 1))
		for i, w := range wls {
			tr := wl.NewTrace()
			tr.Add(wl.Ev{"ev": "Run", "id": w.ID, "cfg": map[string]any{"layout": true, "python": pyopts[i]}, "lib": wl.Blob(""), "csizes": []any{}})
			tr.Add(wl.Ev{"ev": "New", "ret": "ok"})
			for k, c := range w.Calls {
				e := run.CallEv(k, c)
				if c.Op == "header" {
					e["explib"] = wl.Blob(c.Library)
				}
				e["ret"] = "ok"
				tr.Add(e)
			}
			st := status[w.ID]
			tr.Add(wl.Ev{"ev": "PyWrite", "ok": st.OK, "why": st.Why})
			p := filepath.Join(*dir, w.ID+".mcap")
			fb, err := os.ReadFile(p)
			if err == nil && st.OK {
				d := describe(fb)
				d.ev["variant"] = i
				tr.Add(d.ev)
				tr.Add(infoEvent(d))
				specs := readSpecs(rr, d, 3, false)
				// one index-based read per topic of the file (up to eight): whatever the Python writer put into the chunk and
				// message indexes must lead the Go reader to every message of that topic
				for k, t := range d.topics {
					if k >= 8 {
						break
					}
					specs = append(specs, readSpec{Mode: "index", Order: []string{"file", "log", "rlog"}[k%3], Topics: [][]byte{t}, HasT: true, Form: "nanos"})
				}
				evs := make([]func() wl.Ev, len(specs))
				for k, rs := range specs {
					rs := rs
					evs[k] = func() wl.Ev { return doRead(d, rs) }
				}
				for _, e := range parallel(evs) {
					tr.Add(e)
				}
				for _, validate := range []bool{true, false} {
					lr := run.LexAll(bytes.NewReader(fb), run.LexOpts{Validate: validate, AttCRC: true, Attachments: true})
					tr.Add(wl.Ev{"ev": "Lex", "attcrc": true, "toks": lr.Toks, "end": lr.End, "why": errStr(lr.Err)})
				}
				no := false
				ir := run.Iterate(bytes.NewReader(fb), run.IterOpts{UseIndex: &no, MdCallback: true})
				tr.Add(wl.Ev{"ev": "Scan", "msgs": ir.Msgs, "mds": ir.Mds, "end": ir.End, "why": errStr(ir.Err)})
			}
			os.Remove(p)
			tr.Add(wl.Ev{"ev": "End"})
			if err := o.emit(tr); err != nil {
				return err
			}
		}
	default:
		return fmt.Errorf("unknown mode %q", *mode)
	}
	return nil
}
