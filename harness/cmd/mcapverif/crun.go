package main

import (
	"bufio"
	"bytes"
	"crypto/sha256"
	"encoding/hex"
	"encoding/json"
	"flag"
	"fmt"
	"os"
	"os/exec"
	"path/filepath"
	"reflect"
	"sort"
	"strconv"
	"strings"

	"verifharness/refmcap"
	"verifharness/run"
	"verifharness/wl"
)

func init() { commands["crun"] = crun }

func has(fs []string, f string) bool {
	for _, x := range fs {
		if x == f {
			return true
		}
	}
	return false
}

func featuresCfg(fs []string) map[string]any {
	return map[string]any{
		"chunked": has(fs, "ch"), "chunkSize": 1 << 20, "comp": "", "crc": true, "conformance": true,
		"skipMsgIdx": !has(fs, "mx"), "skipStats": !has(fs, "st"), "skipRepSchemas": !has(fs, "rsh"), "skipRepChannels": !has(fs, "rch"),
		"skipAttIdx": !has(fs, "ax"), "skipMdIdx": !has(fs, "mdx"), "skipChunkIdx": !has(fs, "chx"), "skipSumOffsets": !has(fs, "sum"),
		"overrideLibrary": true, "skipMagic": false,
	}
}

func toKV(m []refmcap.KV) []wl.KV {
	var out []wl.KV
	for _, x := range m {
		out = append(out, wl.KV{K: x.K, V: x.V})
	}
	return out
}

// vectorCalls renders the data records of an expectation as writer call events.
func vectorCalls(tr *wl.Trace, v *refmcap.CVector) {
	i := 0
	add := func(c wl.Call) {
		e := run.CallEv(i, c)
		if c.Op == "header" {
			e["explib"] = wl.Blob(c.Library)
		}
		e["ret"] = "ok"
		tr.Add(e)
		i++
	}
	add(wl.Call{Op: "header"})
	for k := range v.Records {
		r := &v.Records[k]
		if r.Type == "DataEnd" {
			break
		}
		switch r.Type {
		case "Schema":
			add(wl.Call{Op: "schema", ID: uint16(r.U64("id")), Name: r.Str("name"), Enc: r.Str("encoding"), Data: r.Bytes("data")})
		case "Channel":
			add(wl.Call{Op: "channel", ID: uint16(r.U64("id")), Schema: uint16(r.U64("schema_id")), Topic: r.Str("topic"), Menc: r.Str("message_encoding"), MD: toKV(r.Map("metadata"))})
		case "Message":
			add(wl.Call{Op: "message", Ch: uint16(r.U64("channel_id")), Seq: uint32(r.U64("sequence")), Log: r.U64("log_time"), Pub: r.U64("publish_time"), Data: r.Bytes("data")})
		case "Attachment":
			add(wl.Call{Op: "attachment", Log: r.U64("log_time"), Create: r.U64("create_time"), Name: r.Str("name"), Media: r.Str("media_type"), Data: r.Bytes("data")})
		case "Metadata":
			add(wl.Call{Op: "metadata", Name: r.Str("name"), MD: toKV(r.Map("metadata"))})
		}
	}
	add(wl.Call{Op: "close"})
}

func normJSON(b []byte) (any, error) {
	var x any
	d := json.NewDecoder(bytes.NewReader(b))
	d.UseNumber()
	if err := d.Decode(&x); err != nil {
		return nil, err
	}
	return x, nil
}

func fieldOf(rec map[string]any, name string) string {
	for _, f := range rec["fields"].([]any) {
		p := f.([]any)
		if p[0].(string) == name {
			s, _ := p[1].(string)
			return s
		}
	}
	return ""
}

// expectedIndexed is IndexedReadTestRunner.expectedResult of the conformance runner.
func expectedIndexed(records []any) map[string]any {
	res := map[string]any{"schemas": []any{}, "channels": []any{}, "messages": []any{}, "statistics": []any{}}
	seenS, seenC := map[string]bool{}, map[string]bool{}
	for _, r := range records {
		rec := r.(map[string]any)
		switch rec["type"] {
		case "Schema":
			if id := fieldOf(rec, "id"); !seenS[id] {
				seenS[id] = true
				res["schemas"] = append(res["schemas"].([]any), rec)
			}
		case "Channel":
			if id := fieldOf(rec, "id"); !seenC[id] {
				seenC[id] = true
				res["channels"] = append(res["channels"].([]any), rec)
			}
		case "Message":
			res["messages"] = append(res["messages"].([]any), rec)
		case "Statistics":
			res["statistics"] = append(res["statistics"].([]any), rec)
		}
	}
	num := func(r any, f string) uint64 {
		v, _ := strconv.ParseUint(fieldOf(r.(map[string]any), f), 10, 64)
		return v
	}
	ms := res["messages"].([]any)
	sort.SliceStable(ms, func(i, j int) bool { return num(ms[i], "log_time") < num(ms[j], "log_time") })
	ss := res["schemas"].([]any)
	sort.SliceStable(ss, func(i, j int) bool { return num(ss[i], "id") < num(ss[j], "id") })
	cs := res["channels"].([]any)
	sort.SliceStable(cs, func(i, j int) bool { return num(cs[i], "id") < num(cs[j], "id") })
	return res
}

func supportsIndexed(v *refmcap.CVector) bool {
	fs := v.Meta.Variant.Features
	hasMsg := false
	for _, r := range v.Records {
		if r.Type == "Message" {
			hasMsg = true
		}
	}
	return hasMsg && has(fs, "ch") && has(fs, "chx") && has(fs, "rch") && has(fs, "rsh") && has(fs, "mx")
}

// crun walks the conformance matrix: regenerates every binary from its expectation (pinned by the LFS sha256),
// has the TLA+ specification judge the regenerated file, reads it with the real lexer / iterator, and runs the two
// Go conformance tools built from the working tree.
func crun(args []string) error {
	fs := flag.NewFlagSet("crun", flag.ExitOnError)
	repo := fs.String("repo", "/repo", "repository root")
	out := fs.String("out", "trace.ndjson", "trace output")
	wtool := fs.String("wtool", "", "path of the built test-write-conformance")
	rtool := fs.String("rtool", "", "path of the built test-read-conformance")
	which := fs.String("which", "all", "all | pad | nopad")
	only := fs.String("only", "", "restrict to one vector name")
	tmp := fs.String("tmp", os.TempDir(), "scratch directory")
	fs.Parse(args)
	files, err := filepath.Glob(filepath.Join(*repo, "tests/conformance/data/*/*.json"))
	if err != nil {
		return err
	}
	sort.Strings(files)
	tf, err := os.Create(*out)
	if err != nil {
		return err
	}
	defer tf.Close()
	o := &outFiles{trace: bufio.NewWriterSize(tf, 1<<20)}
	defer o.trace.Flush()
	for _, jf := range files {
		name := strings.TrimSuffix(filepath.Base(jf), ".json")
		if *only != "" && name != *only {
			continue
		}
		jb, err := os.ReadFile(jf)
		if err != nil {
			return err
		}
		var v refmcap.CVector
		if err := json.Unmarshal(jb, &v); err != nil {
			return fmt.Errorf("%s: %w", jf, err)
		}
		pad := has(v.Meta.Variant.Features, "pad")
		if (*which == "pad" && !pad) || (*which == "nopad" && pad) {
			continue
		}
		gen := refmcap.GenerateConformance(&v)
		// LFS pointer
		ptr, _ := os.ReadFile(strings.TrimSuffix(jf, ".json") + ".mcap")
		oid, size := "", -1
		for _, line := range strings.Split(string(ptr), "\n") {
			if strings.HasPrefix(line, "oid sha256:") {
				oid = strings.TrimPrefix(line, "oid sha256:")
			}
			if strings.HasPrefix(line, "size ") {
				size, _ = strconv.Atoi(strings.TrimPrefix(line, "size "))
			}
		}
		sum := sha256.Sum256(gen)
		pinOK := hex.EncodeToString(sum[:]) == strings.TrimSpace(oid) && size == len(gen)

		tr := wl.NewTrace()
		tr.Add(wl.Ev{"ev": "Run", "id": name, "cfg": featuresCfg(v.Meta.Variant.Features), "lib": wl.Blob(""), "csizes": []any{}})
		tr.Add(wl.Ev{"ev": "New", "ret": "ok"})
		vectorCalls(tr, &v)
		tr.Add(wl.Ev{"ev": "Pin", "ok": pinOK, "pad": pad})
		tr.Add(wl.FileEv(run.DecodeForTrace(gen)))
		for _, validate := range []bool{true, false} {
			lr := run.LexAll(bytes.NewReader(gen), run.LexOpts{Validate: validate, AttCRC: true, Attachments: true})
			tr.Add(wl.Ev{"ev": "Lex", "attcrc": true, "toks": lr.Toks, "end": lr.End, "why": errStr(lr.Err)})
		}
		no := false
		ir := run.Iterate(bytes.NewReader(gen), run.IterOpts{UseIndex: &no, MdCallback: true})
		tr.Add(wl.Ev{"ev": "Scan", "msgs": ir.Msgs, "mds": ir.Mds, "end": ir.End, "why": errStr(ir.Err)})
		// read tool on the regenerated binary
		if *rtool != "" {
			mp := filepath.Join(*tmp, name+".mcap")
			if err := os.WriteFile(mp, gen, 0o644); err != nil {
				return err
			}
			expAll, _ := normJSON(jb)
			expRecords := expAll.(map[string]any)["records"].([]any)
			modes := []string{"streamed"}
			if supportsIndexed(&v) {
				modes = append(modes, "indexed")
			}
			for _, mode := range modes {
				outb, err := exec.Command(*rtool, mp, mode).Output()
				match := false
				why := ""
				if err != nil {
					why = "tool failed: " + err.Error() + " " + string(bytes.TrimSpace(outb))
				} else if got, perr := normJSON(outb); perr != nil {
					why = "unparsable output"
				} else if mode == "streamed" {
					match = reflect.DeepEqual(got, map[string]any{"records": expRecords})
				} else {
					match = reflect.DeepEqual(got, expectedIndexed(expRecords))
				}
				tr.Add(wl.Ev{"ev": "ReadTool", "mode": mode, "match": match, "why": why, "pad": pad})
			}
			os.Remove(mp)
		}
		tr.Add(wl.Ev{"ev": "End"})
		if err := o.emit(tr); err != nil {
			return err
		}
		// write tool on the expectation (the Go runner declares padded variants unsupported for writing)
		if *wtool != "" && !pad {
			outb, err := exec.Command(*wtool, jf).Output()
			tr2 := wl.NewTrace()
			tr2.Add(wl.Ev{"ev": "Run", "id": name + "#written", "cfg": featuresCfg(v.Meta.Variant.Features), "lib": wl.Blob(""), "csizes": []any{}})
			tr2.Add(wl.Ev{"ev": "New", "ret": "ok"})
			vectorCalls(tr2, &v)
			s2 := sha256.Sum256(outb)
			tr2.Add(wl.Ev{"ev": "WriteTool", "ran": err == nil, "hashok": hex.EncodeToString(s2[:]) == strings.TrimSpace(oid), "same": bytes.Equal(outb, gen), "why": errStr(err)})
			if err == nil {
				tr2.Add(wl.FileEv(run.DecodeForTrace(outb)))
			}
			tr2.Add(wl.Ev{"ev": "End"})
			if err := o.emit(tr2); err != nil {
				return err
			}
		}
	}
	// Vectors in the matrix format that the matrix itself does not contain: the records of the stock inputs in other orders
	// (a second schema / channel pair announced after the first message, an attachment and a metadata record between
	// messages), unchunked, under several feature sets.  The expected bytes come from the same port of generate-inputs.ts;
	// the write tool must turn the description into exactly those bytes, record order included.
	if *which == "all" && (*only == "" || strings.HasPrefix(*only, "Synthetic")) && *wtool != "" {
		load := func(rel string) (*refmcap.CVector, error) {
			jb, err := os.ReadFile(filepath.Join(*repo, "tests/conformance/data", rel))
			if err != nil {
				return nil, err
			}
			var v refmcap.CVector
			return &v, json.Unmarshal(jb, &v)
		}
		ten, err1 := load("TenMessages/TenMessages.json")
		att, err2 := load("OneAttachment/OneAttachment.json")
		md, err3 := load("OneMetadata/OneMetadata.json")
		if err1 != nil || err2 != nil || err3 != nil {
			return fmt.Errorf("stock vectors for the synthetic ones are missing: %v %v %v", err1, err2, err3)
		}
		pick := func(v *refmcap.CVector, typ string) []refmcap.CRecord {
			var out []refmcap.CRecord
			for _, r := range v.Records {
				if r.Type == typ {
					out = append(out, r)
				}
			}
			return out
		}
		with := func(r refmcap.CRecord, repl map[string]string) refmcap.CRecord {
			c := refmcap.CRecord{Type: r.Type}
			for _, f := range r.Fields {
				if v, ok := repl[f.Name]; ok {
					f.Value = json.RawMessage(v)
				}
				c.Fields = append(c.Fields, f)
			}
			return c
		}
		sc, ch, ms := pick(ten, "Schema"), pick(ten, "Channel"), pick(ten, "Message")
		at, mdr := pick(att, "Attachment"), pick(md, "Metadata")
		if len(sc) == 0 || len(ch) == 0 || len(ms) < 6 || len(at) == 0 || len(mdr) == 0 {
			return fmt.Errorf("stock vectors do not have the expected records")
		}
		sc2 := with(sc[0], map[string]string{"id": `"2"`, "name": `"Second"`})
		ch2 := with(ch[0], map[string]string{"id": `"2"`, "schema_id": `"2"`, "topic": `"second"`})
		onCh2 := func(m refmcap.CRecord) refmcap.CRecord { return with(m, map[string]string{"channel_id": `"2"`}) }
		orders := map[string][]refmcap.CRecord{
			"LateChannel": {sc[0], ch[0], ms[0], sc2, ch2, onCh2(ms[1]), ms[2], onCh2(ms[3])},
			"AuxBetween":  {sc[0], ch[0], ms[0], at[0], ms[1], mdr[0], ms[2]},
			"AuxFirst":    {mdr[0], at[0], sc[0], ch[0], ms[0], ms[1]},
		}
		// (feature combinations whose layout the matrix does not pin down are left out: attachment and metadata indexes in one
		// file - the matrix has no input with both kinds, so the order of the two groups is nobody's expectation - and an
		// index feature without a record of its kind)
		featureSetsOf := map[string][][]string{
			"LateChannel": {{}, {"st"}, {"rch", "rsh", "st", "sum"}, {"rch"}, {"rsh", "sum"}, {"st", "sum"}},
			"AuxBetween":  {{}, {"st"}, {"ax", "st", "sum"}, {"mdx", "st", "sum"}, {"rch", "rsh", "st", "sum"}, {"ax"}, {"mdx"}},
			"AuxFirst":    {{}, {"st"}, {"ax", "st", "sum"}, {"mdx", "st", "sum"}, {"rch", "rsh", "st", "sum"}, {"ax"}, {"mdx"}},
		}
		names := make([]string, 0, len(orders))
		for n := range orders {
			names = append(names, n)
		}
		sort.Strings(names)
		recJSON := func(r refmcap.CRecord) string {
			var fsj []string
			for _, f := range r.Fields {
				nb, _ := json.Marshal(f.Name)
				fsj = append(fsj, "["+string(nb)+","+string(f.Value)+"]")
			}
			tb, _ := json.Marshal(r.Type)
			return `{"type":` + string(tb) + `,"fields":[` + strings.Join(fsj, ",") + `]}`
		}
		for _, n := range names {
			for _, fset := range featureSetsOf[n] {
				v := refmcap.CVector{}
				v.Records = append(v.Records, refmcap.CRecord{Type: "Header", Fields: ten.Records[0].Fields})
				v.Records = append(v.Records, orders[n]...)
				v.Records = append(v.Records, refmcap.CRecord{Type: "DataEnd", Fields: []refmcap.CField{{Name: "data_section_crc", Value: json.RawMessage(`"0"`)}}})
				v.Meta.Variant.Features = fset
				gen := refmcap.GenerateConformance(&v)
				var rj []string
				for _, r := range v.Records {
					rj = append(rj, recJSON(r))
				}
				fb, _ := json.Marshal(fset)
				if fset == nil || len(fset) == 0 {
					fb = []byte("[]")
				}
				name := "Synthetic" + n
				if len(fset) > 0 {
					name += "-" + strings.Join(fset, "-")
				}
				if *only != "" && *only != name {
					continue
				}
				jf := filepath.Join(*tmp, name+".json")
				if err := os.WriteFile(jf, []byte(`{"records":[`+strings.Join(rj, ",")+`],"meta":{"variant":{"features":`+string(fb)+`}}}`), 0o644); err != nil {
					return err
				}
				outb, err := exec.Command(*wtool, jf).Output()
				os.Remove(jf)
				tr2 := wl.NewTrace()
				tr2.Add(wl.Ev{"ev": "Run", "id": name + "#written", "cfg": featuresCfg(fset), "lib": wl.Blob(""), "csizes": []any{}})
				tr2.Add(wl.Ev{"ev": "New", "ret": "ok"})
				vectorCalls(tr2, &v)
				tr2.Add(wl.Ev{"ev": "WriteTool", "ran": err == nil, "hashok": bytes.Equal(outb, gen), "same": bytes.Equal(outb, gen), "why": errStr(err)})
				if err == nil {
					tr2.Add(wl.FileEv(run.DecodeForTrace(outb)))
				}
				tr2.Add(wl.Ev{"ev": "End"})
				if err := o.emit(tr2); err != nil {
					return err
				}
			}
		}
	}
	return nil
}
