package main

import (
	"bufio"
	"bytes"
	"database/sql"
	"encoding/json"
	"flag"
	"fmt"
	"math"
	"math/rand"
	"os"
	"os/exec"
	"path/filepath"
	"sort"
	"strings"

	"github.com/foxglove/mcap/go/mcap"
	"github.com/foxglove/mcap/go/ros"
	_ "github.com/mattn/go-sqlite3"

	"verifharness/gen"
	"verifharness/refmcap"
	"verifharness/rosgen"
	"verifharness/run"
	"verifharness/wl"
)

func init() {
	commands["brun"] = brun
	rosgen.Bz2 = func(b []byte) []byte {
		cmd := exec.Command("python3", "-c", "import bz2,sys; sys.stdout.buffer.write(bz2.compress(sys.stdin.buffer.read()))")
		cmd.Stdin = bytes.NewReader(b)
		out, err := cmd.Output()
		if err != nil {
			panic("bzip2 through python3 failed: " + err.Error())
		}
		return out
	}
}

func limbs(prefix string, e map[string]any, ns uint64) {
	q, r := ns/1000000000, ns%1000000000
	e[prefix+"hi"], e[prefix+"lo"], e[prefix+"ns"] = int(q>>16), int(q&0xffff), int(r)
}

func flatten(recs []rosgen.Rec) []rosgen.Rec {
	var out []rosgen.Rec
	for _, r := range recs {
		if r.Kind == "chunk" {
			out = append(out, flatten(r.Inner)...)
		} else if r.Kind == "conn" || r.Kind == "msg" {
			out = append(out, r)
		}
	}
	return out
}

func fieldVal(fs []rosgen.HField, name string) []byte {
	var v []byte
	for _, f := range fs { // a later field overwrites an earlier one, as in a map
		if f.Name == name {
			v = f.Value
		}
	}
	return v
}

// bagInEv describes the bag (flattened) for the TLA+ property layer.
func bagInEv(recs []rosgen.Rec) wl.Ev {
	var out []any
	for _, r := range flatten(recs) {
		switch r.Kind {
		case "conn":
			extra := map[string][]byte{}
			for _, f := range r.Fields {
				if f.Name != "type" && f.Name != "message_definition" {
					extra[f.Name] = f.Value
				}
			}
			keys := make([]string, 0, len(extra))
			for k := range extra {
				keys = append(keys, k)
			}
			sort.Strings(keys)
			md := []any{}
			for _, k := range keys {
				md = append(md, map[string]any{"k": wl.Blob(k), "v": wl.Blob(extra[k])})
			}
			out = append(out, map[string]any{"k": "conn", "c": int(r.Conn), "topic": wl.Blob(r.Topic), "type": wl.Blob(fieldVal(r.Fields, "type")),
				"md5": wl.Blob(fieldVal(r.Fields, "md5sum")), "def": wl.Blob(fieldVal(r.Fields, "message_definition")), "md": md})
		case "msg":
			e := map[string]any{"k": "msg", "c": int(r.Conn), "data": wl.Blob(r.Payload)}
			e["shi"], e["slo"], e["ns"] = int(r.Secs>>16), int(r.Secs&0xffff), int(r.Nsecs)
			out = append(out, e)
		}
	}
	if out == nil {
		out = []any{}
	}
	return wl.Ev{"ev": "BagIn", "recs": out, "ros1": wl.Blob("ros1"), "ros1msg": wl.Blob("ros1msg"), "profile": wl.Blob("ros1")}
}

// convOutEv renders the data stream of the produced MCAP with times as limbs of (ns div 1e9, ns mod 1e9).
func convOutEv(ev string, ret string, why string, b []byte) wl.Ev {
	f := run.DecodeForTrace(b)
	var schemas, chans, msgs []any
	var hdr any = map[string]any{"profile": wl.Blob(nil)}
	add := func(r *refmcap.Rec) {
		switch r.Op {
		case refmcap.OpSchema:
			schemas = append(schemas, map[string]any{"id": int(r.ID), "name": wl.Blob(r.Name), "enc": wl.Blob(r.Encoding), "data": wl.Blob(r.Data)})
		case refmcap.OpChannel:
			chans = append(chans, map[string]any{"id": int(r.ID), "schema": int(r.SchemaID), "topic": wl.Blob(r.Topic), "menc": wl.Blob(r.MsgEncoding), "md": wl.MapEv(r.Map)})
		case refmcap.OpMessage:
			e := map[string]any{"ch": int(r.ChannelID), "seq": int(r.Sequence), "data": wl.Blob(r.Data), "log": wl.Tm(r.LogTime)}
			limbs("l", e, r.LogTime)
			limbs("p", e, r.PubTime)
			msgs = append(msgs, e)
		}
	}
	for _, r := range f.Recs {
		if r.Op == refmcap.OpDataEnd {
			break
		}
		if r.Op == refmcap.OpHeader && r.OK {
			hdr = map[string]any{"profile": wl.Blob(r.Profile)}
		}
		if r.Op == refmcap.OpChunk {
			for _, in := range r.Inner {
				add(in)
			}
		} else {
			add(r)
		}
	}
	nz := func(x []any) []any {
		if x == nil {
			return []any{}
		}
		return x
	}
	return wl.Ev{"ev": ev, "ret": ret, "why": why, "schemas": nz(schemas), "chans": nz(chans), "msgs": nz(msgs), "header": hdr}
}

func genBag(r *rand.Rand, g *gen.G) []rosgen.Rec {
	connIDs := []uint32{0, 1, 2, 65535, 40000}
	r.Shuffle(len(connIDs), func(i, j int) { connIDs[i], connIDs[j] = connIDs[j], connIDs[i] })
	nc := 1 + r.Intn(4)
	types := []string{"std_msgs/String", "geometry_msgs/Pose", "pkg/Thing"}
	conns := make([]rosgen.Rec, nc)
	for i := 0; i < nc; i++ {
		ty := types[r.Intn(len(types))]
		md5 := fmt.Sprintf("%032x", r.Intn(2)) // shared and distinct type/md5 pairs
		fields := []rosgen.HField{{Name: "topic", Value: []byte(fmt.Sprintf("/t%d", r.Intn(3)))}, {Name: "type", Value: []byte(ty)}, {Name: "md5sum", Value: []byte(md5)},
			{Name: "message_definition", Value: []byte("string data\n# " + ty + md5[:2])}}
		if r.Intn(2) == 0 {
			fields = append(fields, rosgen.HField{Name: "callerid", Value: []byte("/node")}, rosgen.HField{Name: "latching", Value: []byte("1")})
		}
		topic := string(fields[0].Value)
		switch r.Intn(4) {
		case 0: // a renamed topic: the record header names the topic the messages are stored on, the connection header the
			// topic the publisher used (bags rewritten with a topic mapping)
			fields[0].Value = []byte("/orig" + topic)
		case 1: // a bag written through the rosbag API: the connection header has no topic field at all
			fields = fields[1:]
		}
		conns[i] = rosgen.Rec{Kind: "conn", Conn: connIDs[i], Topic: topic, Fields: fields}
	}
	var body []rosgen.Rec
	declared := map[int]bool{}
	nm := r.Intn(9)
	secsPool := []uint32{0, 1, 1700000000, math.MaxUint32, 5}
	for i := 0; i < nm; i++ {
		c := r.Intn(nc)
		if !declared[c] || r.Intn(5) == 0 { // connection records may repeat
			body = append(body, conns[c])
			declared[c] = true
		}
		var payload []byte
		switch r.Intn(4) {
		case 0:
		case 1:
			payload = make([]byte, 3000+r.Intn(3000))
			r.Read(payload)
		default:
			payload = make([]byte, 1+r.Intn(20))
			r.Read(payload)
		}
		secs := secsPool[r.Intn(len(secsPool))]
		if r.Intn(3) == 0 {
			secs = r.Uint32()
		}
		body = append(body, rosgen.Rec{Kind: "msg", Conn: conns[c].Conn, Secs: secs, Nsecs: uint32(r.Intn(1000000000)), Payload: payload})
	}
	for c := 0; c < nc; c++ { // connections without messages
		if !declared[c] && r.Intn(2) == 0 {
			body = append(body, conns[c])
		}
	}
	recs := []rosgen.Rec{{Kind: "header"}}
	switch r.Intn(3) {
	case 0: // unchunked
		recs = append(recs, body...)
	default:
		comp := []string{"none", "lz4", "bz2", "lz4", "none"}[r.Intn(5)]
		for len(body) > 0 {
			k := 1 + r.Intn(len(body))
			recs = append(recs, rosgen.Rec{Kind: "chunk", Compression: comp, Inner: body[:k]})
			for _, x := range body[:k] {
				if x.Kind == "conn" && r.Intn(2) == 0 {
					recs = append(recs, rosgen.Rec{Kind: "index", Conn: x.Conn})
				}
			}
			body = body[k:]
		}
		for _, c := range conns { // the index section repeats the connection records
			if r.Intn(2) == 0 {
				recs = append(recs, c)
			}
		}
		recs = append(recs, rosgen.Rec{Kind: "chunkinfo"})
	}
	return recs
}

func headerOnly(tr *wl.Trace, cfg wl.Cfg, profile string, external string) {
	c := wl.CfgEv(cfg)
	c["external"] = external
	tr.Add(wl.Ev{"ev": "Run", "id": "", "cfg": c, "lib": wl.Blob(""), "csizes": []any{}})
}

// brun converts generated ROS 1 bags and ROS 2 db3 databases with the real converters.
func brun(args []string) error {
	fs := flag.NewFlagSet("brun", flag.ExitOnError)
	seed := fs.Int64("seed", 1, "seed")
	n := fs.Int("n", 300, "number of bags and of databases")
	out := fs.String("out", "trace.ndjson", "trace output")
	dir := fs.String("dir", os.TempDir(), "scratch directory")
	specs := fs.String("specs", "", "write replayable inputs here (ndjson)")
	in := fs.String("in", "", "replay one input")
	heavy := fs.Bool("heavy", false, "thorough tier: hostile lengths on every length field, more mutations")
	fs.Parse(args)
	tf, err := os.Create(*out)
	if err != nil {
		return err
	}
	defer tf.Close()
	o := &outFiles{trace: bufio.NewWriterSize(tf, 1<<20)}
	defer o.trace.Flush()
	var sw *bufio.Writer
	if *specs != "" {
		sf, err := os.Create(*specs)
		if err != nil {
			return err
		}
		defer sf.Close()
		sw = bufio.NewWriterSize(sf, 1<<20)
		defer sw.Flush()
	}
	r := rand.New(rand.NewSource(*seed))
	g := gen.New(*seed)
	convertBag := func(id string, recs []rosgen.Rec, cfg wl.Cfg) error {
		bag := rosgen.EncodeBag(recs)
		tr := wl.NewTrace()
		c := wl.CfgEv(cfg)
		c["external"] = "bag"
		tr.Add(wl.Ev{"ev": "Run", "id": id, "cfg": c, "lib": wl.Blob(""), "csizes": []any{}})
		tr.Add(wl.Ev{"ev": "New", "ret": "ok"})
		tr.Add(wl.Ev{"ev": "Call", "i": 1, "op": "header", "profile": wl.Blob("ros1"), "library": wl.Blob(""), "explib": wl.Blob(run.ExpectedLibrary(cfg, nil, "mcap-go/"+strings.TrimPrefix(mcap.Version, "v"))), "ret": "ok"})
		tr.Add(wl.Ev{"ev": "Call", "i": 2, "op": "close", "ret": "ok"})
		var buf bytes.Buffer
		ret, why := "ok", ""
		func() {
			defer func() {
				if p := recover(); p != nil {
					ret, why = "panic", fmt.Sprint(p)
				}
			}()
			if err := ros.Bag2MCAP(&buf, bytes.NewReader(bag), run.Options(cfg)); err != nil {
				ret, why = "error", err.Error()
			}
		}()
		fe := run.DecodeForTrace(buf.Bytes())
		csizes := []any{}
		for _, rec := range fe.Recs {
			if rec.Op == 6 && rec.OK {
				csizes = append(csizes, rec.CSize)
			}
		}
		tr.SetFirst("csizes", csizes)
		if ret == "ok" {
			tr.Add(wl.FileEv(fe))
		}
		tr.Add(bagInEv(recs))
		tr.Add(convOutEv("BagOut", ret, why, buf.Bytes()))
		tr.Add(wl.Ev{"ev": "End"})
		if sw != nil {
			b, _ := json.Marshal(map[string]any{"kind": "bag", "id": id, "recs": recs, "cfg": cfg})
			sw.Write(b)
			sw.WriteByte('\n')
		}
		return o.emit(tr)
	}
	if *in != "" {
		b, err := os.ReadFile(*in)
		if err != nil {
			return err
		}
		var x struct {
			Kind string       `json:"kind"`
			ID   string       `json:"id"`
			Recs []rosgen.Rec `json:"recs"`
			Cfg  wl.Cfg       `json:"cfg"`
			DB   *dbSpec      `json:"db"`
		}
		if err := json.Unmarshal(b, &x); err != nil {
			return err
		}
		if x.Kind == "bag" {
			return convertBag(x.ID, x.Recs, x.Cfg)
		}
		return convertDB(o, nil, *dir, x.ID, x.DB, x.Cfg)
	}
	for i := 0; i < *n; i++ {
		cfg := g.Cfg()
		cfg.SkipMagic = false
		if cfg.Compression == "xor" {
			cfg.Compression = "lz4"
		}
		if err := convertBag(fmt.Sprintf("bag%d-%d", *seed, i), genBag(r, g), cfg); err != nil {
			return err
		}
	}
	// large messages: payloads above the converter's initial 1 MiB buffers, compressible and not, in lz4 / uncompressed
	// chunks and unchunked, in both orders (the record buffer and the chunk buffer grow independently)
	if *n > 0 {
		conn := rosgen.Rec{Kind: "conn", Conn: 3, Topic: "/big", Fields: []rosgen.HField{{Name: "topic", Value: []byte("/big")}, {Name: "type", Value: []byte("pkg/Big")},
			{Name: "md5sum", Value: []byte("00")}, {Name: "message_definition", Value: []byte("uint8[] data")}}}
		zeros := make([]byte, 3<<20)
		noise := make([]byte, 3<<19)
		r.Read(noise)
		mid := make([]byte, 1<<20+4096)
		r.Read(mid)
		big := func(p []byte, s uint32) rosgen.Rec {
			return rosgen.Rec{Kind: "msg", Conn: 3, Secs: s, Nsecs: 7, Payload: p}
		}
		variants := [][]rosgen.Rec{
			{{Kind: "header"}, {Kind: "chunk", Compression: "lz4", Inner: []rosgen.Rec{conn, big(zeros, 1)}}, {Kind: "chunk", Compression: "none", Inner: []rosgen.Rec{big(noise, 2)}}, {Kind: "chunkinfo"}},
			{{Kind: "header"}, {Kind: "chunk", Compression: "none", Inner: []rosgen.Rec{conn, big(noise, 1)}}, {Kind: "chunk", Compression: "lz4", Inner: []rosgen.Rec{big(zeros, 2), big(mid, 3)}}},
			{{Kind: "header"}, conn, big(mid, 1), big(zeros, 2), {Kind: "chunk", Compression: "none", Inner: []rosgen.Rec{big(noise, 3)}}, big(noise, 4)},
			{{Kind: "header"}, {Kind: "chunk", Compression: "lz4", Inner: []rosgen.Rec{conn, big(mid, 1)}}, {Kind: "chunk", Compression: "lz4", Inner: []rosgen.Rec{big(noise, 2)}}, {Kind: "chunk", Compression: "none", Inner: []rosgen.Rec{big(zeros, 3)}}},
		}
		for i, v := range variants {
			cfg := g.Cfg()
			cfg.SkipMagic = false
			cfg.Compression = []string{"", "lz4", "zstd", ""}[i]
			if err := convertBag(fmt.Sprintf("bigbag%d-%d", *seed, i), v, cfg); err != nil {
				return err
			}
		}
	}
	for i := 0; i < *n; i++ {
		cfg := g.Cfg()
		cfg.SkipMagic = false
		if cfg.Compression == "xor" {
			cfg.Compression = "zstd"
		}
		if err := convertDB(o, sw, *dir, fmt.Sprintf("db%d-%d", *seed, i), genDB(r), cfg); err != nil {
			return err
		}
	}
	// databases of more than a thousand rows in which long runs of rows share a timestamp (a coarse recorder clock, several
	// topics stamped in one callback): whatever way the converter walks the table, every row is converted once
	nbig := 2
	if *heavy {
		nbig = 4 // the judge compares the two multisets of rows pairwise: quadratic in the number of rows
	}
	for i := 0; i < nbig; i++ {
		cfg := g.Cfg()
		cfg.SkipMagic = false
		if cfg.Compression == "xor" {
			cfg.Compression = "zstd"
		}
		d := genDB(r)
		d.Msgs = nil
		stamps := 1 + []int{0, 2, 7, 40}[r.Intn(4)]
		nm := 1001 + r.Intn(500)
		for k := 0; k < nm; k++ {
			t := d.Topics[r.Intn(len(d.Topics))]
			d.Msgs = append(d.Msgs, dbMsg{Topic: t.ID, TS: int64(1000 + 10*r.Intn(stamps)), Data: []byte{byte(k), byte(k >> 8)}})
		}
		if err := convertDB(o, sw, *dir, fmt.Sprintf("bigdb%d-%d", *seed, i), d, cfg); err != nil {
			return err
		}
	}
	// corrupt bags in isolated workers: bad magic, truncation at every byte of a small bag, hostile lengths
	small := rosgen.EncodeBag([]rosgen.Rec{{Kind: "header"}, {Kind: "chunk", Compression: "none", Inner: []rosgen.Rec{
		{Kind: "conn", Conn: 1, Topic: "/t", Fields: []rosgen.HField{{Name: "topic", Value: []byte("/t")}, {Name: "type", Value: []byte("a/B")}, {Name: "md5sum", Value: []byte("0")}, {Name: "message_definition", Value: []byte("int32 x")}}},
		{Kind: "msg", Conn: 1, Secs: 1, Nsecs: 2, Payload: []byte("abc")}}}, {Kind: "index", Conn: 1}, {Kind: "chunkinfo"}})
	casesPath := filepath.Join(*dir, "bagcases.ndjson")
	cf, err := os.Create(casesPath)
	if err != nil {
		return err
	}
	cw := bufio.NewWriterSize(cf, 1<<20)
	var kinds []string
	emit := func(kind string, data []byte) {
		c := hcase{I: len(kinds), EP: "bag2mcap", Data: data, Base: "bag", Rec: "-", Fld: kind, Mag: "-", Kind: kind}
		b, _ := json.Marshal(c)
		cw.Write(b)
		cw.WriteByte('\n')
		kinds = append(kinds, kind)
	}
	emit("empty", nil)
	emit("bad-magic", append([]byte("#ROSBAG V1.2\n"), small[13:]...))
	emit("mcap-magic", append(append([]byte{}, refmcap.Magic...), small...))
	for cut := 0; cut < len(small); cut++ {
		emit("truncated", small[:cut])
	}
	// every 4-byte length field of the small bag set to hostile values (walk: header_len, field lens, data_len)
	var lenOffs []int
	off := 13
	var walk func(b []byte, base int)
	walk = func(b []byte, base int) {
		p := 0
		for p+4 <= len(b) {
			hl := int(uint32(b[p]) | uint32(b[p+1])<<8 | uint32(b[p+2])<<16 | uint32(b[p+3])<<24)
			lenOffs = append(lenOffs, base+p)
			q := p + 4
			for q+4 <= p+4+hl && q+4 <= len(b) {
				fl := int(uint32(b[q]) | uint32(b[q+1])<<8 | uint32(b[q+2])<<16 | uint32(b[q+3])<<24)
				lenOffs = append(lenOffs, base+q)
				q += 4 + fl
			}
			p += 4 + hl
			if p+4 > len(b) {
				return
			}
			dl := int(uint32(b[p]) | uint32(b[p+1])<<8 | uint32(b[p+2])<<16 | uint32(b[p+3])<<24)
			lenOffs = append(lenOffs, base+p)
			p += 4 + dl
		}
	}
	walk(small[off:], off)
	for li, lo := range lenOffs {
		vals := []uint32{0, 1, 3, 4, 5, 1 << 20}
		if *heavy || li < 4 || li%9 == 0 {
			// lengths of 2 GiB and more make the converter request buffers of twice that size before it notices the data is missing:
			// slow (seconds per case), so the quick tier tries them on a subset of the length fields only
			vals = append(vals, 1<<31-1, 1<<31, 1<<31+1, math.MaxUint32-3, math.MaxUint32)
		}
		for _, v := range vals {
			mut := append([]byte{}, small...)
			mut[lo], mut[lo+1], mut[lo+2], mut[lo+3] = byte(v), byte(v>>8), byte(v>>16), byte(v>>24)
			emit("length", mut)
		}
	}
	nmut := 120
	if *heavy {
		nmut = 1500
	}
	for k := 0; k < nmut; k++ {
		mut := append([]byte{}, small...)
		for j := 0; j < 1+r.Intn(4); j++ {
			mut[13+r.Intn(len(mut)-13)] = byte(r.Intn(256))
		}
		emit("mutated", mut)
	}
	cw.Flush()
	cf.Close()
	// databases that are not what the converter expects: tables or columns missing, values of the wrong kind, rows that
	// point nowhere, type names that do not resolve, files that are not databases at all, a database cut short
	{
		root := filepath.Join(*dir, "ament")
		if _, err := os.Stat(root); err != nil {
			if err := writeAmentTree(root); err != nil {
				return err
			}
		}
		os.Setenv("VERIF_AMENT_ROOT", root)
		mk := func(stmts ...string) []byte {
			p := filepath.Join(*dir, "hostile.db3")
			os.Remove(p)
			db, err := sql.Open("sqlite3", p)
			if err != nil {
				return nil
			}
			for _, st := range stmts {
				db.Exec(st)
			}
			db.Close()
			b, _ := os.ReadFile(p)
			os.Remove(p)
			return b
		}
		topics := `create table topics(id integer primary key, name text not null, type text not null, serialization_format text not null, offered_qos_profiles text)`
		msgs := `create table messages(id integer primary key, topic_id integer not null, timestamp integer not null, data blob not null)`
		t1 := `insert into topics values(1,'/t','pkg_a/msg/Simple','cdr','')`
		m1 := `insert into messages(topic_id,timestamp,data) values(1,5,x'0102')`
		good := mk(topics, msgs, t1, m1)
		dbs := map[string][]byte{
			"empty-file":            {},
			"not-a-database":        []byte("this is not an SQLite file, not even close ....................................."),
			"no-tables":             mk(`create table other(x)`),
			"no-messages-table":     mk(topics, t1),
			"no-topics-table":       mk(msgs, m1),
			"topics-few-columns":    mk(`create table topics(id integer primary key, name text)`, msgs, `insert into topics values(1,'/t')`, m1),
			"messages-few-columns":  mk(topics, `create table messages(id integer primary key, topic_id integer)`, t1, `insert into messages values(1,1)`),
			"null-values":           mk(`create table topics(id integer primary key, name text, type text, serialization_format text, offered_qos_profiles text)`, `create table messages(id integer primary key, topic_id integer, timestamp integer, data blob)`, `insert into topics values(1,NULL,NULL,NULL,NULL)`, `insert into messages values(1,1,NULL,NULL)`),
			"wrong-kinds":           mk(`create table topics(id, name, type, serialization_format, offered_qos_profiles)`, `create table messages(id, topic_id, timestamp, data)`, `insert into topics values('one',7,x'00ff',3.5,9)`, `insert into messages values('x','one','soon',42)`),
			"dangling-topic":        mk(topics, msgs, t1, `insert into messages(topic_id,timestamp,data) values(99,5,x'01')`),
			"negative-time":         mk(topics, msgs, t1, `insert into messages(topic_id,timestamp,data) values(1,-5,x'01')`),
			"huge-topic-id":         mk(topics, msgs, `insert into topics values(70000,'/t','pkg_a/msg/Simple','cdr','')`, `insert into messages(topic_id,timestamp,data) values(70000,5,x'01')`),
			"unknown-package":       mk(topics, msgs, `insert into topics values(1,'/t','nowhere/msg/Thing','cdr','')`, m1),
			"unknown-type":          mk(topics, msgs, `insert into topics values(1,'/t','pkg_a/msg/Missing','cdr','')`, m1),
			"type-no-slashes":       mk(topics, msgs, `insert into topics values(1,'/t','Simple','cdr','')`, m1),
			"type-two-parts":        mk(topics, msgs, `insert into topics values(1,'/t','pkg_a/Simple','cdr','')`, m1),
			"type-empty":            mk(topics, msgs, `insert into topics values(1,'/t','','cdr','')`, m1),
			"type-trailing":         mk(topics, msgs, `insert into topics values(1,'/t','pkg_a/msg/','cdr','')`, m1),
			"type-dots":             mk(topics, msgs, `insert into topics values(1,'/t','../../etc/msg/passwd','cdr','')`, m1),
			"duplicate-topic-names": mk(topics, msgs, t1, `insert into topics values(2,'/t','pkg_a/msg/Leaf','cdr','')`, m1, `insert into messages(topic_id,timestamp,data) values(2,5,x'01')`),
		}
		var dn []string
		for k := range dbs {
			dn = append(dn, k)
		}
		sort.Strings(dn)
		dbCasesPath := filepath.Join(*dir, "dbcases.ndjson")
		df, err := os.Create(dbCasesPath)
		if err != nil {
			return err
		}
		dw := bufio.NewWriterSize(df, 1<<20)
		var dkinds []string
		demit := func(kind string, data []byte) {
			c := hcase{I: len(dkinds), EP: "db3", Data: data, Base: "db3", Rec: "-", Fld: kind, Mag: "-", Kind: kind}
			b, _ := json.Marshal(c)
			dw.Write(b)
			dw.WriteByte('\n')
			dkinds = append(dkinds, kind)
		}
		for _, k := range dn {
			demit(k, dbs[k])
		}
		for cut := 0; cut < len(good); cut += 1 + len(good)/64 { // a valid database cut short
			demit("truncated", good[:cut])
		}
		for k := 0; k < 60; k++ { // ... and with a few bytes overwritten (header, schema page, b-tree cells)
			mut := append([]byte{}, good...)
			for j := 0; j < 1+r.Intn(4); j++ {
				mut[r.Intn(len(mut))] = byte(r.Intn(256))
			}
			demit("mutated", mut)
		}
		dw.Flush()
		df.Close()
		douts := runCases(dbCasesPath, len(dkinds), *dir, 4)
		dtr := wl.NewTrace()
		dtr.Add(wl.Ev{"ev": "Run", "id": "dbcases", "cfg": map[string]any{"external": "cases"}, "lib": wl.Blob(""), "csizes": []any{}})
		for i, k := range dkinds {
			oc := douts[i]
			if oc == nil {
				oc = &houtcome{Class: "missing"}
			}
			dtr.Add(wl.Ev{"ev": "BagCase", "i": i, "kind": "db3-" + k, "class": oc.Class, "allocKiB": oc.AllocKiB, "ms": oc.Ms, "where": oc.Where})
		}
		dtr.Add(wl.Ev{"ev": "End"})
		if err := o.emit(dtr); err != nil {
			return err
		}
	}
	casesASGiB = 24
	casesDeadline = "60s" // multi-GiB buffers requested and zeroed: 5-15 s of CPU per input when the machine is busy
	// ... and, with every length field at 2^32-1 in the thorough tier (8 GiB requests) next to model checkers holding a
	// quarter of the memory, more than 120 s were measured once for an input that does end: ten minutes for the run alone
	confirmDeadline = "600s"
	outcomes := runCases(casesPath, len(kinds), *dir, 3) // hostile lengths make the converter request multi-GiB buffers: few workers at a time
	tr := wl.NewTrace()
	tr.Add(wl.Ev{"ev": "Run", "id": "bagcases", "cfg": map[string]any{"external": "cases"}, "lib": wl.Blob(""), "csizes": []any{}})
	for i, k := range kinds {
		oc := outcomes[i]
		if oc == nil {
			oc = &houtcome{Class: "missing"}
		}
		tr.Add(wl.Ev{"ev": "BagCase", "i": i, "kind": k, "class": oc.Class, "allocKiB": oc.AllocKiB, "ms": oc.Ms, "where": oc.Where})
	}
	tr.Add(wl.Ev{"ev": "End"})
	return o.emit(tr)
}

// ---------------------------------------------------------------- ROS 2 db3

type dbTopic struct {
	ID    int     `json:"id"`
	Name  string  `json:"name"`
	Type  string  `json:"type"`
	Fmt   string  `json:"fmt"`
	QOS   *string `json:"qos"`
	IsMsg bool    `json:"ismsg"`
}
type dbMsg struct {
	Topic int    `json:"topic"`
	TS    int64  `json:"ts"`
	Data  []byte `json:"data"`
}
type dbSpec struct {
	HasQOS bool      `json:"hasqos"`
	Topics []dbTopic `json:"topics"`
	Msgs   []dbMsg   `json:"msgs"`
}

// the ament tree of definitions: pkg/msg/Name -> definition text; references are unqualified within the package or qualified
var msgDefs = map[string]string{
	"pkg_a/msg/Top":    "pkg_b/Inner inner\nLeaf leaf\nint32[] xs\nstring<=10 s\n",
	"pkg_a/msg/Leaf":   "float64 v",
	"pkg_b/msg/Inner":  "Deep d\npkg_a/Leaf l\n",
	"pkg_b/msg/Deep":   "# comment\nuint8 z\n",
	"pkg_a/msg/Simple": "string data\n",
	// names that end in another type's name and sort before it in the package's resource index
	"pkg_a/msg/AltLeaf": "int8 alt\nLeaf plain\n",
	"pkg_b/msg/ADeep":   "Deep[] many\n",
}

// expectedSchema concatenates the definitions breadth-first with de-duplication, as the converter is documented to.
func expectedSchema(typ string) []byte {
	type item struct{ typ, pkg string }
	var out bytes.Buffer
	queue := []item{{typ, strings.Split(typ, "/")[0]}}
	seen := map[string]bool{typ: true}
	first := true
	for len(queue) > 0 {
		it := queue[0]
		queue = queue[1:]
		def := msgDefs[it.typ]
		if !first {
			if out.Len() > 0 && out.Bytes()[out.Len()-1] != '\n' {
				out.WriteByte('\n')
			}
			out.Write(ros.MessageDefinitionSeparator)
			fmt.Fprintf(&out, "MSG: %s\n", strings.Replace(it.typ, "/msg/", "/", 1))
		}
		out.WriteString(def)
		first = false
		pkg := strings.Split(it.typ, "/")[0]
		for _, line := range strings.Split(def, "\n") {
			line = strings.TrimSpace(line)
			if line == "" || strings.HasPrefix(line, "#") {
				continue
			}
			ft := strings.Fields(line)[0]
			if i := strings.Index(ft, "["); i > 0 {
				ft = ft[:i]
			}
			if i := strings.Index(ft, "<"); i > 0 {
				ft = ft[:i]
			}
			if ros.Primitives[ft] {
				continue
			}
			q := pkg + "/msg/" + ft
			if p := strings.Split(ft, "/"); len(p) == 2 {
				q = p[0] + "/msg/" + p[1]
			}
			if !seen[q] {
				seen[q] = true
				queue = append(queue, item{q, pkg})
			}
		}
	}
	return out.Bytes()
}

func writeAmentTree(root string) error {
	idx := map[string][]string{}
	for typ, def := range msgDefs {
		p := strings.Split(typ, "/")
		d := filepath.Join(root, "share", p[0], "msg")
		if err := os.MkdirAll(d, 0o755); err != nil {
			return err
		}
		if err := os.WriteFile(filepath.Join(d, p[2]+".msg"), []byte(def), 0o644); err != nil {
			return err
		}
		idx[p[0]] = append(idx[p[0]], "msg/"+p[2]+".msg", "msg/"+p[2]+".idl") // as colcon writes it: the .idl next to the .msg
	}
	for pkg, lines := range idx {
		d := filepath.Join(root, "share", "ament_index", "resource_index", "rosidl_interfaces")
		if err := os.MkdirAll(d, 0o755); err != nil {
			return err
		}
		sort.Strings(lines)
		if err := os.WriteFile(filepath.Join(d, pkg), []byte(strings.Join(lines, "\n")+"\n"), 0o644); err != nil {
			return err
		}
	}
	return nil
}

func genDB(r *rand.Rand) *dbSpec {
	d := &dbSpec{HasQOS: r.Intn(3) != 0}
	types := []string{"pkg_a/msg/Top", "pkg_a/msg/Simple", "pkg_b/msg/Inner", "pkg_a/msg/Leaf", "pkg_a/msg/AltLeaf", "pkg_b/msg/ADeep", "pkg_b/msg/Deep"}
	nt := 1 + r.Intn(4)
	ids := r.Perm(6)
	for i := 0; i < nt; i++ {
		t := dbTopic{ID: ids[i] + 1, Name: fmt.Sprintf("/topic%d", i), Type: types[r.Intn(len(types))], Fmt: "cdr", IsMsg: true}
		if r.Intn(6) == 0 { // a topic whose type is not a message type
			t.Type, t.IsMsg = "pkg_a/srv/DoIt_Request", false
		}
		if d.HasQOS && r.Intn(3) != 0 {
			q := fmt.Sprintf("- history: %d\n  depth: %d", r.Intn(3), r.Intn(10))
			t.QOS = &q
		}
		d.Topics = append(d.Topics, t)
	}
	nm := r.Intn(10)
	for i := 0; i < nm; i++ {
		t := d.Topics[r.Intn(len(d.Topics))]
		if !t.IsMsg && r.Intn(2) == 0 {
			continue // non-message topics mostly without rows
		}
		data := make([]byte, r.Intn(12))
		r.Read(data)
		ts := []int64{0, 1, 5, 5, 1700000000000000000, math.MaxInt64}[r.Intn(6)]
		d.Msgs = append(d.Msgs, dbMsg{Topic: t.ID, TS: ts, Data: data})
	}
	return d
}

func convertDB(o *outFiles, sw *bufio.Writer, dir string, id string, d *dbSpec, cfg wl.Cfg) error {
	root := filepath.Join(dir, "ament")
	if _, err := os.Stat(root); err != nil {
		if err := writeAmentTree(root); err != nil {
			return err
		}
	}
	dbPath := filepath.Join(dir, id+".db3")
	os.Remove(dbPath)
	db, err := sql.Open("sqlite3", dbPath)
	if err != nil {
		return err
	}
	defer os.Remove(dbPath)
	defer db.Close()
	if d.HasQOS {
		_, err = db.Exec(`create table topics(id integer primary key, name text not null, type text not null, serialization_format text not null, offered_qos_profiles text)`)
	} else {
		_, err = db.Exec(`create table topics(id integer primary key, name text not null, type text not null, serialization_format text not null)`)
	}
	if err != nil {
		return err
	}
	if _, err = db.Exec(`create table messages(id integer primary key, topic_id integer not null, timestamp integer not null, data blob not null)`); err != nil {
		return err
	}
	for _, t := range d.Topics {
		if d.HasQOS {
			_, err = db.Exec(`insert into topics(id,name,type,serialization_format,offered_qos_profiles) values(?,?,?,?,?)`, t.ID, t.Name, t.Type, t.Fmt, t.QOS)
		} else {
			_, err = db.Exec(`insert into topics(id,name,type,serialization_format) values(?,?,?,?)`, t.ID, t.Name, t.Type, t.Fmt)
		}
		if err != nil {
			return err
		}
	}
	tx, err := db.Begin()
	if err != nil {
		return err
	}
	for _, m := range d.Msgs {
		if _, err = tx.Exec(`insert into messages(topic_id,timestamp,data) values(?,?,?)`, m.Topic, m.TS, m.Data); err != nil {
			return err
		}
	}
	if err = tx.Commit(); err != nil {
		return err
	}
	tr := wl.NewTrace()
	c := wl.CfgEv(cfg)
	c["external"] = "db3"
	tr.Add(wl.Ev{"ev": "Run", "id": id, "cfg": c, "lib": wl.Blob(""), "csizes": []any{}})
	tr.Add(wl.Ev{"ev": "New", "ret": "ok"})
	tr.Add(wl.Ev{"ev": "Call", "i": 1, "op": "header", "profile": wl.Blob("ros2"), "library": wl.Blob(""), "explib": wl.Blob(run.ExpectedLibrary(cfg, nil, "mcap-go/"+strings.TrimPrefix(mcap.Version, "v"))), "ret": "ok"})
	tr.Add(wl.Ev{"ev": "Call", "i": 2, "op": "close", "ret": "ok"})
	var buf bytes.Buffer
	ret, why := "ok", ""
	func() {
		defer func() {
			if p := recover(); p != nil {
				ret, why = "panic", fmt.Sprint(p)
			}
		}()
		if err := ros.DB3ToMCAP(&buf, db, run.Options(cfg), []string{root}); err != nil {
			ret, why = "error", err.Error()
		}
	}()
	fe := run.DecodeForTrace(buf.Bytes())
	csizes := []any{}
	for _, rec := range fe.Recs {
		if rec.Op == 6 && rec.OK {
			csizes = append(csizes, rec.CSize)
		}
	}
	tr.SetFirst("csizes", csizes)
	if ret == "ok" {
		tr.Add(wl.FileEv(fe))
	}
	topics := []any{}
	for _, t := range d.Topics {
		e := map[string]any{"id": t.ID, "name": wl.Blob(t.Name), "type": wl.Blob(t.Type), "fmt": wl.Blob(t.Fmt), "ismsg": t.IsMsg, "hasqos": t.QOS != nil, "qos": wl.Blob(nil), "schema": wl.Blob(nil)}
		if t.QOS != nil {
			e["qos"] = wl.Blob(*t.QOS)
		}
		if t.IsMsg {
			e["schema"] = wl.Blob(expectedSchema(t.Type))
		}
		topics = append(topics, e)
	}
	msgs := []any{}
	for i, m := range d.Msgs {
		msgs = append(msgs, map[string]any{"row": i + 1, "topic": m.Topic, "ts": wl.Tm(uint64(m.TS)), "data": wl.Blob(m.Data)})
	}
	tr.Add(wl.Ev{"ev": "DbIn", "topics": topics, "msgs": msgs, "qoskey": wl.Blob("offered_qos_profiles"), "ros2msg": wl.Blob("ros2msg"), "profile": wl.Blob("ros2")})
	tr.Add(convOutEv("DbOut", ret, why, buf.Bytes()))
	tr.Add(wl.Ev{"ev": "End"})
	if sw != nil {
		b, _ := json.Marshal(map[string]any{"kind": "db3", "id": id, "db": d, "cfg": cfg})
		sw.Write(b)
		sw.WriteByte('\n')
	}
	return o.emit(tr)
}
