package main

import (
	"bufio"
	"bytes"
	"encoding/json"
	"flag"
	"fmt"
	"io"
	"math"
	"math/rand"
	"os"
	"sort"
	"time"

	"github.com/foxglove/mcap/go/mcap"

	"verifharness/gen"
	"verifharness/refmcap"
	"verifharness/run"
	"verifharness/wl"
)

func init() { commands["irun"] = irun }

// fileDesc is what the trace says about a file: where every message is, which
// channels exist, what the chunk headers and the summary claim.
type fileDesc struct {
	bytes   []byte
	msgs    []refmcap.MsgLoc
	bySeq   map[uint32]int // sequence -> mid
	chans   map[uint16]*refmcap.Rec
	schemas map[uint16]*refmcap.Rec
	ev      wl.Ev
	topics  [][]byte
	times   []uint64
	file    *refmcap.File
}

// describe decodes b with the independent decoder.
func describe(b []byte) *fileDesc {
	f := run.DecodeForTrace(b)
	nAttIdx, nMdIdx, nAtt, nMd := 0, 0, 0, 0
	for _, r := range f.Recs {
		switch r.Op {
		case refmcap.OpAttachmentIndex:
			nAttIdx++
		case refmcap.OpMetadataIndex:
			nMdIdx++
		case refmcap.OpAttachment:
			nAtt++
		case refmcap.OpMetadata:
			nMd++
		}
	}
	d := &fileDesc{file: f, bytes: b, bySeq: map[uint32]int{}, chans: map[uint16]*refmcap.Rec{}, schemas: map[uint16]*refmcap.Rec{}}
	var msgs, chunks, cidx, chans []any
	nchunk, top := 0, 0
	dataEnd := false
	sumChans, sumSchemas, hasStats, statsMsgs := 0, 0, false, uint64(0)
	addMsg := func(r *refmcap.Rec, chunk, pos int) {
		mid := len(d.msgs) + 1
		d.msgs = append(d.msgs, refmcap.MsgLoc{Mid: mid, Chunk: chunk, Pos: pos, Msg: refmcap.BMsg{Ch: r.ChannelID, Seq: r.Sequence, Log: r.LogTime, Pub: r.PubTime, Data: r.Data}})
		d.bySeq[r.Sequence] = mid
		_, known := d.chans[r.ChannelID]
		msgs = append(msgs, map[string]any{"mid": mid, "chunk": chunk, "pos": pos, "ch": int(r.ChannelID), "log": wl.Tm(r.LogTime), "known": known})
		d.times = append(d.times, r.LogTime)
	}
	addDef := func(r *refmcap.Rec) {
		switch r.Op {
		case refmcap.OpSchema:
			d.schemas[r.ID] = r
		case refmcap.OpChannel:
			if _, ok := d.chans[r.ID]; !ok {
				chans = append(chans, map[string]any{"id": int(r.ID), "topic": wl.Blob(r.Topic), "schema": int(r.SchemaID)})
				d.topics = append(d.topics, r.Topic)
			}
			d.chans[r.ID] = r
		}
	}
	maxRec := uint64(0)
	for _, r := range f.Recs {
		if !r.OK {
			continue
		}
		if r.Len > maxRec {
			maxRec = r.Len
		}
		if r.Op == refmcap.OpDataEnd {
			dataEnd = true
			continue
		}
		if !dataEnd {
			switch r.Op {
			case refmcap.OpChunk:
				nchunk++
				chunks = append(chunks, map[string]any{"start": wl.Tm(r.StartTime), "end": wl.Tm(r.EndTime), "pos": r.Pos, "usize": r.USize, "len": r.Len})
				d.times = append(d.times, r.StartTime, r.EndTime)
				p := 0
				for _, in := range r.Inner {
					if in.Op == refmcap.OpMessage && in.OK {
						p++
						addMsg(in, nchunk, p)
					} else if in.OK {
						addDef(in)
					}
				}
			case refmcap.OpMessage:
				top++
				addMsg(r, 0, top)
			default:
				addDef(r)
			}
		} else {
			switch r.Op {
			case refmcap.OpChunkIndex:
				cidx = append(cidx, map[string]any{"start": wl.Tm(r.StartTime), "end": wl.Tm(r.EndTime), "cstart": r.ChunkStart, "noffs": len(r.Offsets)})
			case refmcap.OpChannel:
				sumChans++
			case refmcap.OpSchema:
				sumSchemas++
			case refmcap.OpStatistics:
				hasStats = true
				statsMsgs = r.MsgCount
			}
		}
	}
	if msgs == nil {
		msgs = []any{}
	}
	if chunks == nil {
		chunks = []any{}
	}
	if cidx == nil {
		cidx = []any{}
	}
	if chans == nil {
		chans = []any{}
	}
	d.ev = wl.Ev{"ev": "IFile", "msgs": msgs, "chunks": chunks, "cidx": cidx, "chans": chans, "sumChans": sumChans, "sumSchemas": sumSchemas,
		"hasStats": hasStats, "statsMsgs": statsMsgs, "nschemas": len(d.schemas), "nAttIdx": nAttIdx, "nMdIdx": nMdIdx, "nAtt": nAtt, "nMd": nMd, "maxRec": maxRec}
	return d
}

type readSpec struct {
	Mode   string   `json:"mode"`  // default | index | scan
	Order  string   `json:"order"` // "" | file | log | rlog
	Topics [][]byte `json:"topics"`
	HasT   bool     `json:"hasT"`
	S, E   *uint64
	Form   string `json:"form"`
	MdCb   bool   `json:"mdcb"`
	Stream bool   `json:"stream"` // the Reader is built over a source that cannot seek
}

// doRead performs one read with a fresh Reader and renders it.
func doRead(d *fileDesc, rs readSpec) wl.Ev { return doReadOn(d, rs, nil) }

// doReadOn performs one read on the given Reader (nil: a fresh one, closed afterwards) and renders it.
func doReadOn(d *fileDesc, rs readSpec, shared *mcap.Reader) wl.Ev {
	e := wl.Ev{"ev": "Read", "mdcb": rs.MdCb, "mode": rs.Mode, "order": rs.Order, "hasT": rs.HasT, "form": rs.Form, "hasS": rs.S != nil, "hasE": rs.E != nil}
	ts := make([]any, 0, len(rs.Topics))
	for _, t := range rs.Topics {
		ts = append(ts, wl.Blob(t))
	}
	e["topics"] = ts
	if rs.S != nil {
		e["s"] = wl.Tm(*rs.S)
	} else {
		e["s"] = 0
	}
	if rs.E != nil {
		e["e"] = wl.Tm(*rs.E)
	} else {
		e["e"] = 0
	}
	ids := []any{}
	inexact := 0
	maxSlots, maxLive := 0, 0
	var capMax uint64
	mds := 0
	end, why := "", ""
	usedIndex := false
	mdsMatch := "none"
	finished := make(chan struct{})
	go func() {
		defer close(finished)
		defer func() {
			if p := recover(); p != nil {
				end, why = "panic", fmt.Sprint(p)
			}
		}()
		reader := shared
		if reader == nil {
			var err error
			var src io.Reader = bytes.NewReader(d.bytes)
			if rs.Stream {
				src = struct{ io.Reader }{src}
			}
			reader, err = mcap.NewReader(src)
			if err != nil {
				end, why = "openerror", err.Error()
				return
			}
			defer reader.Close()
		}
		io_ := run.IterOpts{Order: rs.Order, Topics: rs.Topics, HasTopics: rs.HasT, Start: rs.S, End: rs.E, Form: rs.Form, MdCallback: rs.MdCb}
		switch rs.Mode {
		case "index":
			t := true
			io_.UseIndex = &t
		case "scan":
			f := false
			io_.UseIndex = &f
		}
		var mdl []any
		it, err := reader.Messages(run.ReadOpts(io_, &mdl)...)
		if err != nil {
			end, why = "openerror", err.Error()
			return
		}
		usedIndex = fmt.Sprintf("%T", it) == "*mcap.indexedMessageIterator"
		msg := &mcap.Message{}
		for {
			s, c, m, err := it.NextInto(msg)
			if sl, lv, cb, ok := mcap.VerifIteratorMemory(it); ok {
				if sl > maxSlots {
					maxSlots = sl
				}
				if lv > maxLive {
					maxLive = lv
				}
				if cb > capMax {
					capMax = cb
				}
			}
			if err != nil {
				end, why = run.ErrClass(err), err.Error()
				break
			}
			mid := d.bySeq[m.Sequence]
			ids = append(ids, mid)
			if mid == 0 || !exactTriple(d, mid, s, c, m) {
				inexact++
			}
		}
		mds = len(mdl)
		mdsMatch = mdMatch(d, mdl)
	}()
	select {
	case <-finished:
	case <-time.After(120 * time.Second): // a read of a few KiB that does not come back (the goroutine is abandoned)
		return wl.Ev{"ev": "Read", "mdcb": rs.MdCb, "mode": rs.Mode, "order": rs.Order, "hasT": rs.HasT, "form": rs.Form, "hasS": rs.S != nil, "hasE": rs.E != nil,
			"topics": e["topics"], "s": e["s"], "e": e["e"], "ids": []any{}, "inexact": 0, "end": "hang", "why": "the read did not return within 120 s",
			"maxSlots": 0, "maxLive": 0, "capKiB": 0, "mds": 0, "indexed": false, "mdsMatch": "none"}
	}
	e["ids"] = ids
	e["inexact"] = inexact
	e["end"] = end
	e["why"] = why
	e["maxSlots"] = maxSlots
	e["maxLive"] = maxLive
	e["capKiB"] = capMax / 1024
	e["mds"] = mds
	e["indexed"] = usedIndex
	e["mdsMatch"] = mdsMatch
	e["stream"] = rs.Stream
	return e
}

// pairReadsOn advances two index-based iterators of ONE Reader in turns (with a GetMetadata / GetAttachmentReader lookup on the
// same Reader thrown in now and then): every chunk load seeks to its own offset, so each iterator returns what it returns
// alone.  Two Read events, judged like any index-based read.  nil when the file is not read through the index.
func pairReadsOn(d *fileDesc, reader *mcap.Reader, orders [2]string, r *rand.Rand) (out []wl.Ev) {
	defer func() {
		if p := recover(); p != nil {
			out = nil
		}
	}()
	t := true
	var its [2]mcap.MessageIterator
	for k := range its {
		it, err := reader.Messages(run.ReadOpts(run.IterOpts{Order: orders[k], UseIndex: &t}, nil)...)
		if err != nil || fmt.Sprintf("%T", it) != "*mcap.indexedMessageIterator" {
			return nil
		}
		its[k] = it
	}
	info, _ := reader.Info()
	var ids [2][]any
	var inexact [2]int
	var end, why [2]string
	var maxSlots, maxLive [2]int
	var capMax [2]uint64
	msgs := [2]*mcap.Message{{}, {}}
	for step := 0; end[0] == "" || end[1] == ""; step++ {
		k := step % 2
		if end[k] != "" {
			continue
		}
		s, c, m, err := its[k].NextInto(msgs[k])
		if sl, lv, cb, ok := mcap.VerifIteratorMemory(its[k]); ok {
			if sl > maxSlots[k] {
				maxSlots[k] = sl
			}
			if lv > maxLive[k] {
				maxLive[k] = lv
			}
			if cb > capMax[k] {
				capMax[k] = cb
			}
		}
		if err != nil {
			end[k], why[k] = run.ErrClass(err), err.Error()
			continue
		}
		mid := d.bySeq[m.Sequence]
		ids[k] = append(ids[k], mid)
		if mid == 0 || !exactTriple(d, mid, s, c, m) {
			inexact[k]++
		}
		if info != nil && r.Intn(3) == 0 { // another user of the Reader's stream between two calls
			if n := len(info.MetadataIndexes); n > 0 && r.Intn(2) == 0 {
				_, _ = reader.GetMetadata(info.MetadataIndexes[r.Intn(n)].Offset)
			} else if n := len(info.AttachmentIndexes); n > 0 {
				if ar, err := reader.GetAttachmentReader(info.AttachmentIndexes[r.Intn(n)].Offset); err == nil {
					_, _ = io.Copy(io.Discard, ar.Data())
				}
			}
		}
	}
	for k := range its {
		if ids[k] == nil {
			ids[k] = []any{}
		}
		out = append(out, wl.Ev{"ev": "Read", "mdcb": false, "mode": "index", "order": orders[k], "hasT": false, "form": "", "hasS": false, "hasE": false,
			"topics": []any{}, "s": 0, "e": 0, "ids": ids[k], "inexact": inexact[k], "end": end[k], "why": why[k],
			"maxSlots": maxSlots[k], "maxLive": maxLive[k], "capKiB": capMax[k] / 1024, "mds": 0, "indexed": true, "mdsMatch": "none", "paired": true})
	}
	return out
}

// mdMatch compares what the metadata callback received (as a multiset of exact records) with all metadata records of
// the file ("all") and with those that have a metadata index entry ("indexed"); "both" when the two coincide.
func mdMatch(d *fileDesc, got []any) string {
	canon := func(name string, m map[string]string) string {
		keys := make([]string, 0, len(m))
		for k := range m {
			keys = append(keys, k)
		}
		sort.Strings(keys)
		s := fmt.Sprintf("%q", name)
		for _, k := range keys {
			s += fmt.Sprintf("|%q=%q", k, m[k])
		}
		return s
	}
	recCanon := func(r *refmcap.Rec) string {
		m := map[string]string{}
		for _, kv := range r.Map {
			m[string(kv.K)] = string(kv.V)
		}
		return canon(string(r.Name), m)
	}
	all := map[string]int{}
	idx := map[string]int{}
	byPos := map[uint64]*refmcap.Rec{}
	for _, r := range d.file.Recs {
		if r.Op == refmcap.OpMetadata && r.OK {
			all[recCanon(r)]++
			byPos[r.Pos] = r
		}
	}
	for _, r := range d.file.Recs {
		if r.Op == refmcap.OpMetadataIndex && r.OK {
			if m := byPos[r.Offset]; m != nil {
				idx[recCanon(m)]++
			}
		}
	}
	have := map[string]int{}
	for _, g := range got {
		if raw, ok := g.(map[string]any); ok {
			if c, ok := raw["canon"].(string); ok {
				have[c]++
			}
		}
	}
	eq := func(a, b map[string]int) bool {
		if len(a) != len(b) {
			return false
		}
		for k, v := range a {
			if b[k] != v {
				return false
			}
		}
		return true
	}
	ma, mi := eq(have, all), eq(have, idx)
	switch {
	case ma && mi:
		return "both"
	case ma:
		return "all"
	case mi:
		return "indexed"
	}
	return "none"
}

func exactTriple(d *fileDesc, mid int, s *mcap.Schema, c *mcap.Channel, m *mcap.Message) bool {
	want := d.msgs[mid-1].Msg
	if m.ChannelID != want.Ch || m.LogTime != want.Log || m.PublishTime != want.Pub || !bytes.Equal(m.Data, want.Data) {
		return false
	}
	cr := d.chans[want.Ch]
	if cr == nil || c == nil || c.ID != cr.ID || c.SchemaID != cr.SchemaID || c.Topic != string(cr.Topic) || c.MessageEncoding != string(cr.MsgEncoding) || len(c.Metadata) != len(cr.Map) {
		return false
	}
	for _, kv := range cr.Map {
		if c.Metadata[string(kv.K)] != string(kv.V) {
			return false
		}
	}
	if cr.SchemaID == 0 {
		return s == nil
	}
	sr := d.schemas[cr.SchemaID]
	return sr != nil && s != nil && s.ID == sr.ID && s.Name == string(sr.Name) && s.Encoding == string(sr.Encoding) && bytes.Equal(s.Data, sr.Data)
}

// infoEvent calls Reader.Info and fetches every indexed attachment and metadata record.
func infoEvent(d *fileDesc) (e wl.Ev) { return infoEventOn(d, nil, true) }

// sessionEvents performs a sequence of complete operations on ONE Reader (the sessions are exported by TLC from
// ReaderSession.tla): Info (without fetching records, so that the stream stays on a record boundary) and drained reads.
// Every event carries its position in the session; "moved" says that the Reader was used before.
func sessionEvents(d *fileDesc, ops []string, r *rand.Rand, sid int) []wl.Ev {
	var out []wl.Ev
	reader, err := mcap.NewReader(bytes.NewReader(d.bytes))
	if err != nil {
		return nil
	}
	defer reader.Close()
	var filt *readSpec
	if fs := readSpecs(r, d, 1, false); len(fs) > 5 {
		filt = &fs[5]
	}
	for k, op := range ops {
		var e wl.Ev
		switch op {
		case "info":
			e = infoEventOn(d, reader, false)
		case "access":
			// Info, then every indexed attachment and metadata record fetched from the location its entry gives
			e = infoEventOn(d, reader, true)
		case "default":
			rs := readSpec{Mode: "default"}
			if filt != nil && (sid+k)%2 == 0 { // every second one with the session's topic set / window
				rs.Topics, rs.HasT, rs.S, rs.E, rs.Form = filt.Topics, filt.HasT, filt.S, filt.E, filt.Form
			}
			e = doReadOn(d, rs, reader)
		case "idxfile":
			e = doReadOn(d, readSpec{Mode: "index", Order: "file"}, reader)
		case "idxlog":
			e = doReadOn(d, readSpec{Mode: "index", Order: []string{"log", "rlog"}[(sid+k)%2]}, reader)
		case "scan":
			e = doReadOn(d, readSpec{Mode: "scan"}, reader)
		case "idxpair":
			// two index-based iterators alive at the same time, advanced in turns
			for _, pe := range pairReadsOn(d, reader, [2]string{"file", []string{"file", "log", "rlog"}[(sid+k)%3]}, r) {
				pe["sess"], pe["moved"], pe["sid"] = k+1, k > 0, sid
				out = append(out, pe)
			}
			continue
		default:
			continue
		}
		e["sess"] = k + 1
		e["moved"] = k > 0
		e["sid"] = sid
		out = append(out, e)
	}
	return out
}

// infoExact counts the items Info lists that equal a record of the file's summary section exactly (C08: "Info lists every
// channel, schema, chunk, attachment index and metadata index of the file", and the statistics).
func infoExact(d *fileDesc, info *mcap.Info) map[string]any {
	out := map[string]any{"xChannels": 0, "xSchemas": 0, "xChunkIdx": 0, "xAttIdx": 0, "xMdIdx": 0, "xStats": true}
	inSummary := false
	nCh, nSc, nCi, nAi, nMi := 0, 0, 0, 0, 0
	var stats *refmcap.Rec
	usedCi := map[int]bool{}
	usedAi := map[int]bool{}
	usedMi := map[int]bool{}
	for _, r := range d.file.Recs {
		if r.Op == refmcap.OpDataEnd {
			inSummary = true
			continue
		}
		if !inSummary || !r.OK {
			continue
		}
		switch r.Op {
		case refmcap.OpChannel:
			if c := info.Channels[r.ID]; c != nil && c.ID == r.ID && c.SchemaID == r.SchemaID && c.Topic == string(r.Topic) && c.MessageEncoding == string(r.MsgEncoding) && len(c.Metadata) == len(r.Map) {
				same := true
				for _, kv := range r.Map {
					if c.Metadata[string(kv.K)] != string(kv.V) {
						same = false
					}
				}
				if same {
					nCh++
				}
			}
		case refmcap.OpSchema:
			if sc := info.Schemas[r.ID]; sc != nil && sc.ID == r.ID && sc.Name == string(r.Name) && sc.Encoding == string(r.Encoding) && bytes.Equal(sc.Data, r.Data) {
				nSc++
			}
		case refmcap.OpChunkIndex:
			for i, x := range info.ChunkIndexes {
				if usedCi[i] || x.MessageStartTime != r.StartTime || x.MessageEndTime != r.EndTime || x.ChunkStartOffset != r.ChunkStart || x.ChunkLength != r.ChunkLen ||
					x.MessageIndexLength != r.MsgIdxLen || string(x.Compression) != string(r.Compression) || x.CompressedSize != r.CSize || x.UncompressedSize != r.USize ||
					len(x.MessageIndexOffsets) != len(r.Offsets) {
					continue
				}
				same := true
				for _, o := range r.Offsets {
					if v, ok := x.MessageIndexOffsets[o.Ch]; !ok || v != o.Val {
						same = false
					}
				}
				if same {
					usedCi[i] = true
					nCi++
					break
				}
			}
		case refmcap.OpAttachmentIndex:
			for i, x := range info.AttachmentIndexes {
				if !usedAi[i] && x.Offset == r.Offset && x.Length == r.Length && x.LogTime == r.LogTime && x.CreateTime == r.CreateTime && x.DataSize == r.DataSize &&
					x.Name == string(r.Name) && x.MediaType == string(r.MediaType) {
					usedAi[i] = true
					nAi++
					break
				}
			}
		case refmcap.OpMetadataIndex:
			for i, x := range info.MetadataIndexes {
				if !usedMi[i] && x.Offset == r.Offset && x.Length == r.Length && x.Name == string(r.Name) {
					usedMi[i] = true
					nMi++
					break
				}
			}
		case refmcap.OpStatistics:
			stats = r
		}
	}
	out["xChannels"], out["xSchemas"], out["xChunkIdx"], out["xAttIdx"], out["xMdIdx"] = nCh, nSc, nCi, nAi, nMi
	if st := info.Statistics; st != nil && stats != nil {
		ok := st.MessageCount == stats.MsgCount && st.SchemaCount == stats.SchemaCount && st.ChannelCount == stats.ChannelCount && st.AttachmentCount == stats.AttCount &&
			st.MetadataCount == stats.MdCount && st.ChunkCount == stats.ChunkCount && st.MessageStartTime == stats.StartTime && st.MessageEndTime == stats.EndTime &&
			len(st.ChannelMessageCounts) == len(stats.PerChannel)
		for _, pc := range stats.PerChannel {
			if st.ChannelMessageCounts[pc.Ch] != pc.Val {
				ok = false
			}
		}
		out["xStats"] = ok
	} else {
		out["xStats"] = (info.Statistics == nil) == (stats == nil)
	}
	return out
}

func infoEventOn(d *fileDesc, shared *mcap.Reader, fetch bool) (e wl.Ev) {
	e = wl.Ev{"ev": "Info", "ret": "ok", "nChannels": 0, "nSchemas": 0, "nChunkIdx": 0, "nAttIdx": 0, "nMdIdx": 0, "attOK": 0, "mdOK": 0, "hasStats": false, "msgs": 0, "why": "",
		"xChannels": 0, "xSchemas": 0, "xChunkIdx": 0, "xAttIdx": 0, "xMdIdx": 0, "xStats": true}
	defer func() {
		if p := recover(); p != nil {
			e["ret"], e["why"] = "panic", fmt.Sprint(p)
		}
	}()
	reader := shared
	if reader == nil {
		var err error
		reader, err = mcap.NewReader(bytes.NewReader(d.bytes))
		if err != nil {
			e["ret"], e["why"] = "error", err.Error()
			return e
		}
		defer reader.Close()
	}
	info, err := reader.Info()
	if err != nil {
		e["ret"], e["why"] = "error", err.Error()
		return e
	}
	e["nChannels"], e["nSchemas"], e["nChunkIdx"] = len(info.Channels), len(info.Schemas), len(info.ChunkIndexes)
	e["nAttIdx"], e["nMdIdx"] = len(info.AttachmentIndexes), len(info.MetadataIndexes)
	if info.Statistics != nil {
		e["hasStats"], e["msgs"] = true, info.Statistics.MessageCount
		e["stats"] = run.StatsEv(info.Statistics) // the values themselves: judged against the logical content where the trace carries it
	}
	// the per-topic view of the per-channel counts (Info.ChannelCounts): asked of every Info, whatever the summary carries.
	// ccOK: every topic that exactly one listed channel carries, and that has a count, shows that channel's count
	func() {
		defer func() {
			if p := recover(); p != nil {
				e["ccPanic"], e["ccWhy"] = true, fmt.Sprint(p)
			}
		}()
		e["ccPanic"], e["ccOK"] = false, true
		cc := info.ChannelCounts()
		if info.Statistics != nil {
			perTopic := map[string]int{}
			for _, c := range info.Channels {
				perTopic[c.Topic]++
			}
			for id, n := range info.Statistics.ChannelMessageCounts {
				if c := info.Channels[id]; c != nil && perTopic[c.Topic] == 1 && cc[c.Topic] != n {
					e["ccOK"] = false
				}
			}
		}
	}()
	// every listed item is compared, field by field, with the summary record of the decoded file it must stand for
	ex := infoExact(d, info)
	for k, v := range ex {
		e[k] = v
	}
	if !fetch { // a plain Info inside a session: the records are not fetched, the counts are what is judged
		e["attOK"], e["mdOK"] = len(info.AttachmentIndexes), len(info.MetadataIndexes)
		return e
	}
	recAt := func(pos uint64) *refmcap.Rec {
		for _, r := range d.file.Recs {
			if r.Pos == pos {
				return r
			}
		}
		return nil
	}
	attOK, mdOK := 0, 0
	for _, ai := range info.AttachmentIndexes {
		ar, err := reader.GetAttachmentReader(ai.Offset)
		if err != nil {
			continue
		}
		data, err := io.ReadAll(ar.Data())
		want := recAt(ai.Offset)
		if err == nil && want != nil && want.Op == refmcap.OpAttachment && bytes.Equal(data, want.Data) && ar.Name == string(want.Name) &&
			ar.MediaType == string(want.MediaType) && ar.LogTime == want.LogTime && ar.CreateTime == want.CreateTime && ar.DataSize == want.DataSize {
			attOK++
		}
	}
	for _, mi := range info.MetadataIndexes {
		md, err := reader.GetMetadata(mi.Offset)
		want := recAt(mi.Offset)
		if err != nil || want == nil || want.Op != refmcap.OpMetadata || md.Name != string(want.Name) || len(md.Metadata) != len(want.Map) {
			continue
		}
		same := true
		for _, kv := range want.Map {
			if md.Metadata[string(kv.K)] != string(kv.V) {
				same = false
			}
		}
		if same {
			mdOK++
		}
	}
	e["attOK"], e["mdOK"] = attOK, mdOK
	return e
}

// ---------------------------------------------------------------- generators

var topicA, topicB = []byte("/a"), []byte("/b")

func stdChannels() ([]refmcap.BSchema, []refmcap.BChannel) {
	return []refmcap.BSchema{{ID: 1, Name: []byte("S"), Enc: []byte("e"), Dat: []byte("d")}},
		[]refmcap.BChannel{{ID: 0, Schema: 1, Topic: topicA, Menc: []byte("m")}, {ID: 1, Schema: 0, Topic: topicB, Menc: []byte("m")},
			{ID: 2, Schema: 1, Topic: topicB, Menc: []byte("m")}, {ID: 7, Schema: 1, Topic: []byte("/silent"), Menc: []byte("m")}}
}

func stdFile(chunks []refmcap.BChunk) *refmcap.BFile {
	ss, cs := stdChannels()
	f := &refmcap.BFile{Profile: []byte("p"), Library: []byte("verif"), Schemas: ss, Channels: cs, DefsUpFront: true, MessageIndex: true,
		SummaryOffsets: true, CRC: true, SummaryOrder: []string{"Schema", "Channel", "Statistics", "ChunkIndex"}}
	for i := range chunks {
		f.Items = append(f.Items, refmcap.Item{Chunk: &chunks[i]})
	}
	return f
}

// windowsFor draws read specs: orders x topic sets x windows, through every API form.
func readSpecs(r *rand.Rand, d *fileDesc, n int, all bool) []readSpec {
	var pool []uint64
	seen := map[uint64]bool{}
	for _, t := range append(append([]uint64{}, d.times...), 0, math.MaxUint64) {
		if !seen[t] {
			seen[t] = true
			pool = append(pool, t)
		}
	}
	sort.Slice(pool, func(i, j int) bool { return pool[i] < pool[j] })
	topicSets := [][][]byte{nil, {topicA}, {topicB}, {[]byte("/unknown")}, {topicA, topicB}, {[]byte("/silent")}}
	if len(d.topics) > 0 {
		topicSets = append(topicSets, [][]byte{d.topics[r.Intn(len(d.topics))]})
	}
	var out []readSpec
	base := []readSpec{{Mode: "default"}, {Mode: "index", Order: "file"}, {Mode: "index", Order: "log"}, {Mode: "index", Order: "rlog"}, {Mode: "scan"}}
	out = append(out, base...)
	if all {
		out = append(out, base[2], base[3]) // repeatability: the ordered reads twice
	}
	for k := 0; k < n; k++ {
		rs := base[r.Intn(len(base))]
		if r.Intn(3) != 0 {
			ts := topicSets[r.Intn(len(topicSets))]
			rs.Topics, rs.HasT = ts, true
		}
		switch r.Intn(4) {
		case 0: // no window
		case 1: // only start
			s := pool[r.Intn(len(pool))]
			rs.S = &s
		case 2: // only end
			e := pool[r.Intn(len(pool))]
			rs.E = &e
		default:
			i := r.Intn(len(pool))
			j := i + r.Intn(len(pool)-i)
			s, e := pool[i], pool[j]
			rs.S, rs.E = &s, &e
		}
		rs.Form = []string{"nanos", "nanos-rev", "legacy", "legacy-rev", "mixed-a", "mixed-b"}[r.Intn(6)]
		bigS, bigE := rs.S != nil && *rs.S > math.MaxInt64, rs.E != nil && *rs.E > math.MaxInt64
		if ((rs.Form == "legacy" || rs.Form == "legacy-rev") && (bigS || bigE)) || (rs.Form == "mixed-a" && bigS) || (rs.Form == "mixed-b" && bigE) {
			rs.Form = "nanos"
		}
		if rs.Form == "nanos-rev" || rs.Form == "legacy-rev" {
			// the options validate start <= end at the time they are applied: giving the end first is only legal
			// against the default start of 0, which always holds
		}
		out = append(out, rs)
	}
	return out
}

func irun(args []string) error {
	fs := flag.NewFlagSet("irun", flag.ExitOnError)
	seed := fs.Int64("seed", 1, "seed")
	n := fs.Int("n", 100, "number of files (rand/writer/overlap modes)")
	reads := fs.Int("reads", 6, "random read specs per file in addition to the five base reads")
	out := fs.String("out", "trace.ndjson", "trace output")
	fout := fs.String("files", "", "write replay specs (ndjson) here")
	mode := fs.String("mode", "exh", "exh | rand | writer | overlap | replay")
	nch := fs.Int("chunks", 2, "exh: max chunks")
	nms := fs.Int("msgs", 2, "exh: max messages per chunk")
	ntm := fs.Int("times", 3, "exh: number of time values")
	stride := fs.Int("stride", 1, "exh: take every stride-th file (offset seed%stride)")
	nchans := fs.Int("chans", 2, "exh: number of channels messages are drawn from")
	in := fs.String("in", "", "replay spec")
	sessIn := fs.String("sessions", "", "Reader sessions exported by TLC from ReaderSession.tla (ndjson); a few are run on every file")
	nsess := fs.Int("nsess", 4, "sessions per file")
	fs.Parse(args)
	tf, err := os.Create(*out)
	if err != nil {
		return err
	}
	defer tf.Close()
	o := &outFiles{trace: bufio.NewWriterSize(tf, 1<<20)}
	defer o.trace.Flush()
	if *fout != "" {
		wf, err := os.Create(*fout)
		if err != nil {
			return err
		}
		defer wf.Close()
		o.wls = bufio.NewWriterSize(wf, 1<<20)
		defer o.wls.Flush()
	}
	type job struct {
		id    string
		bytes []byte
		specs []readSpec
		sess  [][]string
	}
	var sessions [][]string
	if *sessIn != "" {
		b, err := os.ReadFile(*sessIn)
		if err != nil {
			return err
		}
		for _, line := range bytes.Split(b, []byte("\n")) {
			if len(bytes.TrimSpace(line)) == 0 {
				continue
			}
			var x struct {
				Ops []string `json:"ops"`
			}
			if err := json.Unmarshal(line, &x); err != nil {
				return err
			}
			sessions = append(sessions, x.Ops)
		}
	}
	nextSess := 0
	pickSessions := func(k int) [][]string {
		var out [][]string
		for i := 0; i < k && len(sessions) > 0; i++ {
			out = append(out, sessions[nextSess%len(sessions)])
			nextSess++
		}
		return out
	}
	emit := func(j job) error {
		d := describe(j.bytes)
		tr := wl.NewTrace()
		tr.Add(wl.Ev{"ev": "Run", "id": j.id})
		tr.Add(d.ev)
		tr.Add(infoEvent(d))
		evs := make([]func() wl.Ev, len(j.specs))
		for i, rs := range j.specs {
			rs := rs
			evs[i] = func() wl.Ev { return doRead(d, rs) }
		}
		for _, e := range parallel(evs) {
			tr.Add(e)
		}
		sr := rand.New(rand.NewSource(int64(len(j.bytes))))
		for si, ops := range j.sess {
			for _, e := range sessionEvents(d, ops, sr, si) {
				tr.Add(e)
			}
		}
		tr.Add(wl.Ev{"ev": "End"})
		if o.wls != nil {
			b, _ := json.Marshal(map[string]any{"id": j.id, "file": j.bytes, "specs": j.specs, "sess": j.sess})
			o.wls.Write(b)
			o.wls.WriteByte('\n')
		}
		return o.emit(tr)
	}
	r := rand.New(rand.NewSource(*seed))
	switch *mode {
	case "replay":
		b, err := os.ReadFile(*in)
		if err != nil {
			return err
		}
		var spec struct {
			ID    string     `json:"id"`
			File  []byte     `json:"file"`
			Specs []readSpec `json:"specs"`
			Sess  [][]string `json:"sess"`
		}
		if err := json.Unmarshal(b, &spec); err != nil {
			return err
		}
		return emit(job{spec.ID, spec.File, spec.Specs, spec.Sess})
	case "exh":
		// every file of <= chunks x <= msgs messages, times from ntm values, 2 channels; the time values are
		// concretised per seed with 0 at the bottom and 2^64-1 at the top when ntm >= 4
		tv := make([]uint64, *ntm)
		for i := range tv {
			tv[i] = uint64(i) * (1 + uint64(r.Intn(1000)))
		}
		if *ntm >= 4 {
			tv[*ntm-1] = math.MaxUint64
		}
		type am struct{ ch, t int }
		var seqs [][]am
		var rec func(cur []am)
		rec = func(cur []am) {
			seqs = append(seqs, append([]am{}, cur...))
			if len(cur) == *nms {
				return
			}
			for ch := 0; ch < *nchans; ch++ {
				for t := 0; t < *ntm; t++ {
					rec(append(cur, am{ch, t}))
				}
			}
		}
		rec(nil)
		count := 0
		var build func(chunks [][]am) error
		build = func(chunks [][]am) error {
			if len(chunks) > 0 {
				count++
				if (count+int(*seed))%*stride == 0 {
					var bcs []refmcap.BChunk
					seq := uint32(0)
					for _, c := range chunks {
						bc := refmcap.BChunk{Compression: []string{"", "zstd", "lz4"}[count%3]}
						for _, m := range c {
							seq++
							bc.Msgs = append(bc.Msgs, refmcap.BMsg{Ch: uint16(m.ch), Seq: seq, Log: tv[m.t], Pub: uint64(seq), Data: []byte{byte(seq)}})
						}
						bcs = append(bcs, bc)
					}
					// variant: exact chunk ranges, and (every 4th) a foreign layout whose ranges are wider than the content
					if count%4 == 3 {
						for i := range bcs {
							lo, hi := tv[0], tv[*ntm-1]
							if i%2 == 0 {
								bcs[i].Start, bcs[i].End = &lo, &hi
							}
						}
					}
					b, err := refmcap.Build(stdFile(bcs))
					if err != nil {
						return err
					}
					d := describe(b.Bytes)
					if err := emit(job{fmt.Sprintf("exh%d-%d", *seed, count), b.Bytes, readSpecs(r, d, *reads, true), nil}); err != nil {
						return err
					}
				}
			}
			if len(chunks) == *nch {
				return nil
			}
			for _, s := range seqs {
				if err := build(append(append([][]am{}, chunks...), s)); err != nil {
					return err
				}
			}
			return nil
		}
		return build(nil)
	case "rand", "overlap":
		for i := 0; i < *n; i++ {
			nchunks := 2 + r.Intn(40)
			depth := 1 + r.Intn(8)
			if *mode == "overlap" {
				nchunks = 10 + r.Intn(90)
				if i%10 == 9 {
					nchunks = 1000
				}
			}
			var bcs []refmcap.BChunk
			seq := uint32(0)
			style := r.Intn(4)
			for c := 0; c < nchunks; c++ {
				bc := refmcap.BChunk{Compression: []string{"", "zstd", "lz4"}[r.Intn(3)]}
				nm := r.Intn(12)
				if *mode == "overlap" {
					nm = 1 + r.Intn(4)
				}
				// controlled overlap: chunk c covers [c*10, c*10 + depth*10)
				base := uint64(c) * 10
				for k := 0; k < nm; k++ {
					seq++
					var t uint64
					switch {
					case *mode == "overlap":
						t = base + uint64(r.Intn(depth*10))
						if k == 0 {
							t = base
						}
					case style == 0:
						t = uint64(r.Intn(6)) // heavy ties
					case style == 1:
						t = math.MaxUint64 - uint64(r.Intn(4)) - 1
						if r.Intn(5) == 0 {
							t = 0
						}
					case style == 2:
						t = uint64(nchunks-c)*100 + uint64(r.Intn(150)) // chunks run backwards in the file
					default:
						t = r.Uint64()
					}
					sz := 1 + r.Intn(20)
					if *mode == "overlap" {
						sz = 200 + r.Intn(200)
					}
					data := make([]byte, sz)
					r.Read(data)
					bc.Msgs = append(bc.Msgs, refmcap.BMsg{Ch: uint16(r.Intn(3)), Seq: seq, Log: t, Pub: r.Uint64(), Data: data})
				}
				bcs = append(bcs, bc)
			}
			sf := stdFile(bcs)
			sf.StatsNoPerChannel = i%4 == 3 // "not available" per-channel counts: nothing may be inferred from their absence
			if i%8 == 5 {
				sf.MessageIndex = false // ... nor from absent message indexes
			}
			b, err := refmcap.Build(sf)
			if err != nil {
				return err
			}
			d := describe(b.Bytes)
			if err := emit(job{fmt.Sprintf("%s%d-%d", *mode, *seed, i), b.Bytes, readSpecs(r, d, *reads, true), pickSessions(*nsess)}); err != nil {
				return err
			}
		}
	case "decision":
		// the decision table exported by TLC from ReadDecision.tla: every combination of the summary-shaping writer options x
		// content shape, written by the real writer and read in the four modes; each read carries the model's prediction
		b, err := os.ReadFile(*in)
		if err != nil {
			return err
		}
		for li, line := range bytes.Split(b, []byte("\n")) {
			if len(bytes.TrimSpace(line)) == 0 {
				continue
			}
			var x struct {
				Flags    map[string]bool `json:"flags"`
				Shape    string          `json:"shape"`
				Seekable *bool           `json:"seekable"`
				Pred     map[string]struct {
					Class string `json:"class"`
					Via   string `json:"via"`
				} `json:"pred"`
			}
			if err := json.Unmarshal(line, &x); err != nil {
				return err
			}
			cfg := wl.Cfg{Chunked: x.Flags["chunked"], ChunkSize: []int64{1, 100, 1 << 20}[li%3], Compression: []string{"", "zstd", "lz4"}[(li/3)%3], CRC: li%2 == 0,
				SkipChunkIdx: x.Flags["skipChunkIdx"], SkipRepChannels: x.Flags["skipRepChannels"], SkipRepSchemas: x.Flags["skipRepSchemas"],
				SkipStats: x.Flags["skipStats"], SkipMsgIdx: x.Flags["skipMsgIdx"]}
			calls := []wl.Call{{Op: "header", Profile: []byte("p")}}
			var sid uint16
			if x.Shape == "withschema" {
				sid = 7
				calls = append(calls, wl.Call{Op: "schema", ID: 7, Name: []byte("s"), Enc: []byte("e"), Data: []byte("d")})
			}
			calls = append(calls, wl.Call{Op: "channel", ID: 3, Schema: sid, Topic: topicA, Menc: []byte("m")})
			if x.Shape != "empty" {
				calls = append(calls, wl.Call{Op: "message", Ch: 3, Seq: 1, Log: 5, Pub: 1, Data: []byte("one")}, wl.Call{Op: "message", Ch: 3, Seq: 2, Log: 3, Pub: 2, Data: []byte("two")})
			}
			calls = append(calls, wl.Call{Op: "close"})
			w := wl.Workload{ID: fmt.Sprintf("dec%d", li), Cfg: cfg, Calls: calls}
			var buf bytes.Buffer
			tr0 := wl.NewTrace()
			res := run.RunWriter(tr0, w, nil, &buf)
			if len(res.Rets) == 0 || res.Rets[len(res.Rets)-1] != "ok" {
				return fmt.Errorf("decision file %d could not be written", li)
			}
			fb := append([]byte{}, buf.Bytes()...)
			d := describe(fb)
			tr := wl.NewTrace()
			tr.Add(wl.Ev{"ev": "Run", "id": w.ID})
			tr.Add(d.ev)
			stream := x.Seekable != nil && !*x.Seekable
			if !stream {
				tr.Add(infoEvent(d)) // (Info needs a source that can seek)
			}
			var specs []readSpec
			for _, m := range []string{"default", "idxfile", "idxlog", "scan"} {
				rs := map[string]readSpec{"default": {Mode: "default"}, "idxfile": {Mode: "index", Order: "file"}, "idxlog": {Mode: "index", Order: "log"}, "scan": {Mode: "scan"}}[m]
				rs.Stream = stream
				specs = append(specs, rs)
				e := doRead(d, rs)
				e["predClass"], e["predVia"], e["dmode"] = x.Pred[m].Class, x.Pred[m].Via, m
				tr.Add(e)
			}
			tr.Add(wl.Ev{"ev": "End"})
			if o.wls != nil {
				jb, _ := json.Marshal(map[string]any{"id": w.ID, "file": fb, "specs": specs})
				o.wls.Write(jb)
				o.wls.WriteByte('\n')
			}
			if err := o.emit(tr); err != nil {
				return err
			}
		}
	case "writer":
		// files written by the real writer in every configuration (C02)
		g := gen.New(*seed)
		g.NoHuge = true
		for i := 0; i < *n; i++ {
			w := g.Workload(fmt.Sprintf("w%d-%d", *seed, i), 14)
			w.Cfg.SkipMagic = false
			if w.Cfg.Compression == "xor" {
				w.Cfg.Compression = ""
			}
			if i%3 == 0 { // the indexed-reading precondition holds
				w.Cfg.Chunked, w.Cfg.SkipChunkIdx, w.Cfg.SkipRepChannels, w.Cfg.SkipRepSchemas = true, false, false, false
			}
			if i%6 == 3 { // ... and channels are re-announced after messages that use them, in chunks that hold several channels
				w.Cfg.Chunked, w.Cfg.SkipChunkIdx, w.Cfg.SkipRepChannels, w.Cfg.SkipRepSchemas, w.Cfg.SkipMsgIdx = true, false, false, false, false
				if w.Cfg.ChunkSize < 400 {
					w.Cfg.ChunkSize = 400
				}
				w.Calls = g.Reannounce(w.Calls)
			}
			if i%6 == 4 {
				w = g.ReannounceWorkload(w.ID)
			}
			uniqueSeqs(&w)
			var buf bytes.Buffer
			tr := wl.NewTrace()
			res := run.RunWriter(tr, w, nil, &buf)
			if len(res.Rets) == 0 || res.Rets[len(res.Rets)-1] != "ok" {
				continue
			}
			b := append([]byte{}, buf.Bytes()...)
			d := describe(b)
			specs := readSpecs(r, d, *reads, true)
			for k := range specs {
				specs[k].MdCb = true
			}
			if err := emit(job{w.ID, b, specs, pickSessions(*nsess)}); err != nil {
				return err
			}
		}
		// chunks of several hundred KiB under every built-in compression and level (the codecs then stream a chunk in several
		// blocks / frames with level-dependent window sizes): what the scan decodes, the index-based reads must decode too
		k := 0
		for _, comp := range []string{"zstd", "lz4"} {
			for level := 0; level < 4; level++ {
				k++
				if *n < 100 && k%2 == 0 {
					continue
				}
				c := wl.Cfg{Chunked: true, ChunkSize: []int64{300 << 10, 1 << 20}[k%2], Compression: comp, Level: level, CRC: k%3 == 0}
				w := wl.Workload{ID: fmt.Sprintf("wbulk%d-%s-%d", *seed, comp, level), Cfg: c, Calls: g.BulkCalls(1500)}
				var buf bytes.Buffer
				tr := wl.NewTrace()
				res := run.RunWriter(tr, w, nil, &buf)
				if len(res.Rets) == 0 || res.Rets[len(res.Rets)-1] != "ok" {
					continue
				}
				b := append([]byte{}, buf.Bytes()...)
				d := describe(b)
				specs := readSpecs(r, d, 2, false)
				if err := emit(job{w.ID, b, specs, nil}); err != nil {
					return err
				}
			}
		}
	default:
		return fmt.Errorf("unknown mode %q", *mode)
	}
	return nil
}

func uniqueSeqs(w *wl.Workload) {
	s := uint32(0)
	for i := range w.Calls {
		if w.Calls[i].Op == "message" {
			s++
			w.Calls[i].Seq = s
		}
	}
}

var _ = io.EOF
