// mcapverif drives the real go/mcap code for the TLA+ trace specifications.
package main

import (
	"fmt"
	"os"
)

var commands = map[string]func(args []string) error{}

func main() {
	if len(os.Args) < 2 {
		fmt.Fprintln(os.Stderr, "usage: mcapverif <command> [flags]")
		os.Exit(2)
	}
	cmd, ok := commands[os.Args[1]]
	if !ok {
		fmt.Fprintf(os.Stderr, "unknown command %q\n", os.Args[1])
		os.Exit(2)
	}
	if err := cmd(os.Args[2:]); err != nil {
		fmt.Fprintln(os.Stderr, "mcapverif:", err)
		os.Exit(2)
	}
}
