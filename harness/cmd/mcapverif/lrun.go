package main

import (
	"bufio"
	"bytes"
	"encoding/json"
	"flag"
	"fmt"
	"math/rand"
	"os"

	"verifharness/refmcap"
	"verifharness/run"
	"verifharness/wl"
)

func init() { commands["lrun"] = lrun }

// absLayout is a layout exported by TLC from Layout.tla.
type absLayout struct {
	Data struct {
		Parts []struct {
			N     int    `json:"n"`
			Comp  string `json:"comp"`
			Chunk bool   `json:"chunk"`
		} `json:"parts"`
		Defs string `json:"defs"`
	} `json:"data"`
	Summary []string `json:"summary"`
	MsgIdx  bool     `json:"msgidx"`
	SumOffs bool     `json:"sumoffs"`
	CRC     bool     `json:"crc"`
	Unknown []string `json:"unknown"`
	Pad     int      `json:"pad"`
	Within  string   `json:"within"`
}

type content struct {
	schemas  []refmcap.BSchema
	channels []refmcap.BChannel
	msgs     []refmcap.BMsg // the abstract message i of the layout stands for msgs[i*mult : (i+1)*mult]
	mult     int
	att      refmcap.BAttachment
	md       refmcap.BMetadata
	att2     refmcap.BAttachment // written after the last part (so that the index groups hold two records each)
	md2      refmcap.BMetadata
	profile  []byte
	library  []byte
}

func makeContent(r *rand.Rand, nAbs int) *content {
	c := &content{mult: 1 + r.Intn(3), profile: []byte("prof"), library: []byte("lib x")}
	c.schemas = []refmcap.BSchema{{ID: 1, Name: []byte("S1"), Enc: []byte("enc"), Dat: []byte("schema one")}, {ID: 65535, Name: []byte("S2"), Enc: nil, Dat: nil}}
	c.channels = []refmcap.BChannel{
		{ID: 0, Schema: 1, Topic: []byte("/a"), Menc: []byte("m"), MD: []refmcap.KV{{K: []byte("k1"), V: []byte("v1")}, {K: []byte("k2"), V: nil}}},
		{ID: 1, Schema: 65535, Topic: []byte("/b"), Menc: []byte("m")},
		{ID: 65535, Schema: 0, Topic: []byte("/b"), Menc: nil}}
	tpool := []uint64{0, 1, 5, 5, 1 << 40, 1<<63 + 7, ^uint64(0) - 1}
	for i := 0; i < nAbs*c.mult; i++ {
		d := make([]byte, r.Intn(30))
		r.Read(d)
		c.msgs = append(c.msgs, refmcap.BMsg{Ch: []uint16{0, 1, 65535}[r.Intn(3)], Seq: uint32(i + 1), Log: tpool[r.Intn(len(tpool))], Pub: r.Uint64(), Data: d})
	}
	c.att = refmcap.BAttachment{Log: 3, Create: 4, Name: []byte("att.bin"), Media: []byte("application/x"), Data: []byte("attachment payload")}
	c.md = refmcap.BMetadata{Name: []byte("meta"), MD: []refmcap.KV{{K: []byte("a"), V: []byte("1")}, {K: []byte("b"), V: []byte("2")}}}
	c.att2 = refmcap.BAttachment{Log: 9, Create: 1, Name: []byte("second"), Media: nil, Data: []byte{1, 2, 3}}
	c.md2 = refmcap.BMetadata{Name: []byte("meta2"), MD: []refmcap.KV{{K: []byte("z"), V: nil}}}
	return c
}

func hasStr(xs []string, s string) bool {
	for _, x := range xs {
		if x == s {
			return true
		}
	}
	return false
}

// buildLayout lays the content out as the abstract layout says.
func buildLayout(c *content, l *absLayout, salt int) *refmcap.BFile {
	f := &refmcap.BFile{Profile: c.profile, Library: c.library, Schemas: c.schemas, Channels: c.channels, SummaryOrder: l.Summary,
		MessageIndex: l.MsgIdx, SummaryOffsets: l.SumOffs, CRC: l.CRC, Pad: l.Pad, SummaryUnknown: map[string][]refmcap.Unknown{}, Within: l.Within}
	f.DefsUpFront = l.Data.Defs == "upfront" || l.Data.Defs == "both"
	u := func(k int) refmcap.Unknown {
		ops := []byte{0x10, 0x7f, 0x80, 0xff}
		lens := []int{0, 1, 40}
		// opcode and body length (0, 1, 40) of every insertion vary with the layout's index, so that each position sees each shape
		return refmcap.Unknown{Op: ops[(k+salt)%4], Body: bytes.Repeat([]byte{0xEE}, lens[(k+salt/4)%3])}
	}
	if hasStr(l.Unknown, "top0") {
		x := u(0)
		f.Items = append(f.Items, refmcap.Item{Unknown: &x})
	}
	next := 0
	firstChunk := true
	nChunks := 0
	for _, p := range l.Data.Parts {
		if p.Chunk {
			nChunks++
		}
	}
	seenChunks := 0
	for pi, p := range l.Data.Parts {
		ms := c.msgs[next*c.mult : (next+p.N)*c.mult]
		next += p.N
		if p.Chunk {
			seenChunks++
			bc := &refmcap.BChunk{Msgs: ms, Compression: p.Comp, Defs: l.Data.Defs == "perchunk" || l.Data.Defs == "both", UnknownAt: map[int][]refmcap.Unknown{}}
			if firstChunk && hasStr(l.Unknown, "inchunk0") {
				bc.UnknownAt[0] = append(bc.UnknownAt[0], u(1))
			}
			if firstChunk && hasStr(l.Unknown, "inchunk1") && len(ms) >= 1 {
				bc.UnknownAt[len(ms)/2] = append(bc.UnknownAt[len(ms)/2], u(2), u(3))
			}
			if seenChunks == nChunks && hasStr(l.Unknown, "inchunkend") {
				bc.UnknownAt[len(ms)] = append(bc.UnknownAt[len(ms)], u(4))
			}
			f.Items = append(f.Items, refmcap.Item{Chunk: bc})
			if firstChunk && hasStr(l.Unknown, "afterchunk") {
				x := refmcap.Unknown{Op: 0xFF}
				f.Items = append(f.Items, refmcap.Item{Unknown: &x})
			}
			firstChunk = false
		} else {
			for i := range ms {
				f.Items = append(f.Items, refmcap.Item{Msg: &ms[i]})
			}
		}
		if pi == 0 {
			f.Items = append(f.Items, refmcap.Item{Att: &c.att})
			if hasStr(l.Unknown, "top1") {
				x := u(5)
				f.Items = append(f.Items, refmcap.Item{Unknown: &x})
			}
			f.Items = append(f.Items, refmcap.Item{Md: &c.md})
		}
	}
	f.Items = append(f.Items, refmcap.Item{Md: &c.md2}, refmcap.Item{Att: &c.att2})
	if hasStr(l.Unknown, "top2") {
		x := u(6)
		f.Items = append(f.Items, refmcap.Item{Unknown: &x})
	}
	if len(l.Summary) > 0 {
		if hasStr(l.Unknown, "sum0") {
			f.SummaryUnknown[l.Summary[0]] = append(f.SummaryUnknown[l.Summary[0]], u(7))
		}
		if hasStr(l.Unknown, "sum1") && len(l.Summary) > 1 {
			f.SummaryUnknown[l.Summary[1]] = append(f.SummaryUnknown[l.Summary[1]], u(8), u(9))
		}
	}
	if hasStr(l.Unknown, "sumend") {
		f.SummaryUnknown[""] = append(f.SummaryUnknown[""], u(10))
	}
	return f
}

func kv(m []refmcap.KV) []wl.KV {
	var out []wl.KV
	for _, x := range m {
		out = append(out, wl.KV{K: x.K, V: x.V})
	}
	return out
}

// contentCalls renders the logical content as the call events the TLA+ content model consumes.
func contentCalls(tr *wl.Trace, c *content) {
	i := 0
	add := func(call wl.Call) {
		e := run.CallEv(i, call)
		if call.Op == "header" {
			e["explib"] = wl.Blob(call.Library)
		}
		e["ret"] = "ok"
		tr.Add(e)
		i++
	}
	add(wl.Call{Op: "header", Profile: c.profile, Library: c.library})
	for _, s := range c.schemas {
		add(wl.Call{Op: "schema", ID: s.ID, Name: s.Name, Enc: s.Enc, Data: s.Dat})
	}
	for _, ch := range c.channels {
		add(wl.Call{Op: "channel", ID: ch.ID, Schema: ch.Schema, Topic: ch.Topic, Menc: ch.Menc, MD: kv(ch.MD)})
	}
	for _, m := range c.msgs {
		add(wl.Call{Op: "message", Ch: m.Ch, Seq: m.Seq, Log: m.Log, Pub: m.Pub, Data: m.Data})
	}
	add(wl.Call{Op: "attachment", Log: c.att.Log, Create: c.att.Create, Name: c.att.Name, Media: c.att.Media, Data: c.att.Data})
	add(wl.Call{Op: "metadata", Name: c.md.Name, MD: kv(c.md.MD)})
	add(wl.Call{Op: "metadata", Name: c.md2.Name, MD: kv(c.md2.MD)})
	add(wl.Call{Op: "attachment", Log: c.att2.Log, Create: c.att2.Create, Name: c.att2.Name, Media: c.att2.Media, Data: c.att2.Data})
	add(wl.Call{Op: "close"})
}

// lrun builds every layout of the input (exported by TLC from Layout.tla) for seeded contents and reads each with the real readers.
func lrun(args []string) error {
	fs := flag.NewFlagSet("lrun", flag.ExitOnError)
	seed := fs.Int64("seed", 1, "seed")
	in := fs.String("in", "", "layouts (ndjson, from TLC)")
	out := fs.String("out", "trace.ndjson", "trace output")
	fout := fs.String("files", "", "replay specs output")
	group := fs.Int("group", 8, "layouts per content / run")
	reads := fs.Int("reads", 3, "random read specs per layout")
	nAbs := fs.Int("nmsgs", 3, "abstract messages per content (NMsgs of the model)")
	cseedFlag := fs.Int64("cseed", 0, "replay: content seed")
	salt0 := fs.Int("salt", 0, "replay: index of the layout in its original run (shapes of the inserted records depend on it)")
	fs.Parse(args)
	b, err := os.ReadFile(*in)
	if err != nil {
		return err
	}
	var layouts []absLayout
	var raw [][]byte
	for _, line := range bytes.Split(b, []byte("\n")) {
		if len(bytes.TrimSpace(line)) == 0 {
			continue
		}
		var l absLayout
		if err := json.Unmarshal(line, &l); err != nil {
			return fmt.Errorf("bad layout: %w", err)
		}
		layouts = append(layouts, l)
		raw = append(raw, append([]byte{}, line...))
	}
	tf, err := os.Create(*out)
	if err != nil {
		return err
	}
	defer tf.Close()
	o := &outFiles{trace: bufio.NewWriterSize(tf, 1<<20)}
	defer o.trace.Flush()
	if *fout != "" {
		wf, err := os.Create(*fout)
		if err != nil {
			return err
		}
		defer wf.Close()
		o.wls = bufio.NewWriterSize(wf, 1<<20)
		defer o.wls.Flush()
	}
	r := rand.New(rand.NewSource(*seed))
	for g := 0; g < len(layouts); g += *group {
		cseed := *seed*100000 + int64(g)
		if *cseedFlag != 0 {
			cseed = *cseedFlag
		}
		c := makeContent(rand.New(rand.NewSource(cseed)), *nAbs)
		tr := wl.NewTrace()
		id := fmt.Sprintf("lay%d-%d", *seed, g)
		tr.Add(wl.Ev{"ev": "Run", "id": id, "cfg": map[string]any{"layout": true}, "lib": wl.Blob(c.library), "csizes": []any{}})
		tr.Add(wl.Ev{"ev": "New", "ret": "ok"})
		contentCalls(tr, c)
		end := g + *group
		if end > len(layouts) {
			end = len(layouts)
		}
		for k := g; k < end; k++ {
			built, err := refmcap.Build(buildLayout(c, &layouts[k], k+*salt0))
			if err != nil {
				return err
			}
			fb := built.Bytes
			d := describe(fb)
			d.ev["variant"] = k
			tr.Add(d.ev)
			tr.Add(infoEvent(d))
			specs := readSpecs(r, d, *reads, false)
			evs := make([]func() wl.Ev, len(specs))
			for i, rs := range specs {
				rs := rs
				evs[i] = func() wl.Ev { return doRead(d, rs) }
			}
			for _, e := range parallel(evs) {
				tr.Add(e)
			}
			// one Reader session per layout (a filtered read, then full reads in every order, then Info, on ONE Reader): what a
			// Reader returns later must not depend on the layout either (how many chunks an earlier read could exclude)
			for _, e := range sessionEvents(d, []string{"default", "idxfile", "idxlog", "idxlog", "info"}, r, 2*k) {
				tr.Add(e)
			}
			for _, validate := range []bool{true, false} {
				lr := run.LexAll(bytes.NewReader(fb), run.LexOpts{Validate: validate, AttCRC: true, Attachments: true})
				tr.Add(wl.Ev{"ev": "Lex", "attcrc": true, "toks": lr.Toks, "end": lr.End, "why": errStr(lr.Err), "variant": k})
			}
			no := false
			ir := run.Iterate(bytes.NewReader(fb), run.IterOpts{UseIndex: &no, MdCallback: true})
			tr.Add(wl.Ev{"ev": "Scan", "msgs": ir.Msgs, "mds": ir.Mds, "end": ir.End, "why": errStr(ir.Err), "variant": k})
			if o.wls != nil {
				jb, _ := json.Marshal(map[string]any{"id": id, "variant": k, "cseed": cseed, "layout": json.RawMessage(raw[k]), "nmsgs": *nAbs})
				o.wls.Write(jb)
				o.wls.WriteByte('\n')
			}
		}
		tr.Add(wl.Ev{"ev": "End"})
		if err := o.emit(tr); err != nil {
			return err
		}
	}
	return nil
}
