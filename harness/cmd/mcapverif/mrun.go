package main

import (
	"bufio"
	"encoding/json"
	"flag"
	"fmt"
	"math/rand"
	"os"
	"strings"

	"github.com/foxglove/mcap/go/ros/ros1msg"

	"verifharness/wl"
)

func init() { commands["mrun"] = mrun }

var rosPrims = []string{"bool", "int8", "uint8", "int16", "uint16", "int32", "uint32", "int64", "uint64", "float32", "float64", "string", "time", "duration", "char", "byte"}

type gField struct {
	Name      string `json:"name"`
	Written   string `json:"written"`
	Base      string `json:"base"`
	Arr       string `json:"arr"`
	Size      int    `json:"size"`
	Qualified bool   `json:"qualified"`
	BPkg      string `json:"bpkg"`
}
type gType struct {
	Name   string   `json:"name"`
	Fields []gField `json:"fields"`
}
type gDef struct {
	Pkg  string   `json:"pkg"`
	Top  []gField `json:"top"`
	Deps []gType  `json:"deps"`
}

// genGraph draws a type graph: node 0 is the top-level type, references go to higher-numbered nodes (depth <= 5);
// with flaw != "" a missing dependency or a cycle is planted.
func genGraph(r *rand.Rand, flaw string) gDef {
	pkgs := []string{"pkg", "geometry_msgs", "std_msgs", "x"}
	n := 1 + r.Intn(6)
	names := make([]string, n)
	names[0] = "pkg/Top"
	used := map[string]bool{"pkg/Top": true}
	hasHeader := r.Intn(3) == 0
	for i := 1; i < n; i++ {
		for {
			nm := fmt.Sprintf("%s/%s%d", pkgs[r.Intn(len(pkgs))], []string{"Pose", "Point", "Thing", "Inner"}[r.Intn(4)], r.Intn(3))
			if i == n-1 && hasHeader {
				nm = "std_msgs/Header"
			}
			if !used[nm] {
				used[nm] = true
				names[i] = nm
				break
			}
		}
	}
	depth := make([]int, n)
	fieldsOf := make([][]gField, n)
	mkField := func(i, k int, from int) gField {
		f := gField{Name: fmt.Sprintf("%c%s%d", 'a'+rune(r.Intn(26)), []string{"", "_x", "Val", "9"}[r.Intn(4)], k)}
		candidates := []int{}
		for j := from + 1; j < n; j++ {
			if depth[from] < 5 {
				candidates = append(candidates, j)
			}
		}
		if len(candidates) > 0 && r.Intn(2) == 0 {
			j := candidates[r.Intn(len(candidates))]
			if depth[j] < depth[from]+1 {
				depth[j] = depth[from] + 1
			}
			full := names[j]
			parts := strings.SplitN(full, "/", 2)
			f.Base, f.Qualified, f.BPkg = full, true, parts[0]
			if full == "std_msgs/Header" && r.Intn(2) == 0 {
				f.Base, f.Qualified, f.BPkg = "Header", false, ""
			}
			_ = i
		} else {
			f.Base = rosPrims[r.Intn(len(rosPrims))]
		}
		switch r.Intn(4) {
		case 0:
			f.Arr, f.Written = "var", f.Base+"[]"
		case 1:
			f.Arr, f.Size = "fixed", 1+r.Intn(9)
			f.Written = fmt.Sprintf("%s[%d]", f.Base, f.Size)
		default:
			f.Arr, f.Written = "scalar", f.Base
		}
		return f
	}
	for i := 0; i < n; i++ {
		nf := r.Intn(4)
		if i == 0 {
			nf = 1 + r.Intn(5)
		}
		for k := 0; k < nf; k++ {
			fieldsOf[i] = append(fieldsOf[i], mkField(i, k, i))
		}
	}
	// package-relative references: an unqualified name is looked up in the package context of the referring definition
	// (the context is inherited through unqualified references), so only rewrite when the context is known to match
	ctx := make([]string, n)
	ctx[0] = "pkg"
	for i := 0; i < n; i++ {
		for k := range fieldsOf[i] {
			f := &fieldsOf[i][k]
			if !f.Qualified || f.Base == "std_msgs/Header" {
				continue
			}
			for j := i + 1; j < n; j++ {
				if names[j] == f.Base && ctx[j] == "" {
					ctx[j] = f.BPkg
				}
			}
		}
	}
	for i := 0; i < n; i++ {
		for k := range fieldsOf[i] {
			f := &fieldsOf[i][k]
			if f.Qualified && ctx[i] != "" && f.BPkg == ctx[i] && r.Intn(2) == 0 && f.Base != "std_msgs/Header" {
				short := strings.SplitN(f.Base, "/", 2)[1]
				if !used[short] {
					f.Written = strings.Replace(f.Written, f.Base, short, 1)
					f.Base, f.Qualified, f.BPkg = short, false, ""
				}
			}
		}
	}
	d := gDef{Pkg: "pkg", Top: fieldsOf[0]}
	for i := 1; i < n; i++ {
		d.Deps = append(d.Deps, gType{names[i], fieldsOf[i]})
	}
	switch flaw {
	case "twins":
		// the same short type name in two packages, each referenced package-relatively from a holder type of its own
		// package (and, every other time, also package-relatively from the top-level type, whose package has a third one):
		// every reference must resolve in the package context of the type that contains it
		short := []string{"Point", "Status", "Inner"}[r.Intn(3)]
		pa, pb := "nav_a", "nav_b"
		body := func(k int) []gField {
			var out []gField
			for j := 0; j <= k; j++ {
				out = append(out, gField{Name: fmt.Sprintf("v%d_%d", k, j), Written: rosPrims[(3*k+j)%len(rosPrims)], Base: rosPrims[(3*k+j)%len(rosPrims)], Arr: "scalar"})
			}
			return out
		}
		rel := func(name string, arr string) gField {
			f := gField{Name: name, Base: short, Arr: arr, Written: short}
			if arr == "var" {
				f.Written = short + "[]"
			}
			return f
		}
		holderA := gType{pa + "/HolderA", []gField{rel("first", "scalar"), {Name: "n", Written: "int32", Base: "int32", Arr: "scalar"}}}
		holderB := gType{pb + "/HolderB", []gField{{Name: "m", Written: "string", Base: "string", Arr: "scalar"}, rel("items", "var")}}
		qual := func(name, full string) gField {
			return gField{Name: name, Written: full, Base: full, Arr: "scalar", Qualified: true, BPkg: strings.SplitN(full, "/", 2)[0]}
		}
		tops := []gField{qual("ha", holderA.Name), qual("hb", holderB.Name)}
		deps := []gType{holderA, holderB, {pa + "/" + short, body(0)}, {pb + "/" + short, body(2)}}
		if r.Intn(2) == 0 {
			tops = append([]gField{rel("mine", "scalar")}, tops...)
			deps = append(deps, gType{"pkg/" + short, body(1)})
		}
		if r.Intn(2) == 0 { // the order of the MSG: sections must not matter either
			deps[2], deps[3] = deps[3], deps[2]
		}
		if r.Intn(2) == 0 {
			// a package with a message of its own called Header, referenced by its qualified name, next to a bare "Header"
			// field in the same package context: the bare name is the special case and means std_msgs/Header
			loc := gType{"pkg/Header", body(1)}
			std := gType{"std_msgs/Header", []gField{{Name: "seq", Written: "uint32", Base: "uint32", Arr: "scalar"}, {Name: "stamp", Written: "time", Base: "time", Arr: "scalar"},
				{Name: "frame_id", Written: "string", Base: "string", Arr: "scalar"}}}
			hasStd := false
			for _, t := range d.Deps {
				if t.Name == "std_msgs/Header" {
					hasStd = true
				}
			}
			tops = append(tops, gField{Name: "hh", Written: "Header", Base: "Header", Arr: "scalar"}, qual("ph", "pkg/Header"))
			deps = append(deps, loc)
			if !hasStd {
				deps = append(deps, std)
			}
		}
		d.Top = append(d.Top, tops...)
		d.Deps = append(d.Deps, deps...)
	case "missing":
		d.Top = append(d.Top, gField{Name: "zz", Written: "Nowhere", Base: "Nowhere", Arr: "scalar"})
	case "missing-qualified":
		d.Top = append(d.Top, gField{Name: "zz", Written: "other/Nowhere[]", Base: "other/Nowhere", Arr: "var", Qualified: true, BPkg: "other"})
	case "self":
		if len(d.Deps) > 0 {
			t := &d.Deps[len(d.Deps)-1]
			p := strings.SplitN(t.Name, "/", 2)[0]
			t.Fields = append(t.Fields, gField{Name: "again", Written: t.Name, Base: t.Name, Arr: "scalar", Qualified: true, BPkg: p})
			d.Top = append(d.Top, gField{Name: "zz", Written: t.Name, Base: t.Name, Arr: "scalar", Qualified: true, BPkg: p})
		}
	case "mutual":
		if len(d.Deps) > 1 {
			a, b := &d.Deps[0], &d.Deps[1]
			pa, pb := strings.SplitN(a.Name, "/", 2)[0], strings.SplitN(b.Name, "/", 2)[0]
			a.Fields = append(a.Fields, gField{Name: "tob", Written: b.Name + "[]", Base: b.Name, Arr: "var", Qualified: true, BPkg: pb})
			b.Fields = append(b.Fields, gField{Name: "toa", Written: a.Name, Base: a.Name, Arr: "scalar", Qualified: true, BPkg: pa})
			d.Top = append(d.Top, gField{Name: "zz", Written: a.Name, Base: a.Name, Arr: "scalar", Qualified: true, BPkg: pa})
		}
	}
	return d
}

func renderFields(r *rand.Rand, fs []gField) string {
	var sb strings.Builder
	noise := func() {
		switch r.Intn(6) {
		case 0:
			sb.WriteString("\n")
		case 1:
			sb.WriteString("# a comment = with an equals sign\n")
		case 2:
			sb.WriteString(fmt.Sprintf("%sint32 CONST_%d=%d %s\n", []string{"", "  ", "\t"}[r.Intn(3)], r.Intn(9), r.Intn(100), []string{"", "# trailing"}[r.Intn(2)]))
		case 3:
			sb.WriteString("   \t \n")
		}
		// lines far longer than any line-reader's default buffer (64 KiB): a comment, a string constant
		switch r.Intn(60) {
		case 0:
			sb.WriteString("# " + strings.Repeat("long comment ", 5100+r.Intn(9000)) + "\n")
		case 1:
			sb.WriteString("string LICENSE=" + strings.Repeat("x", 65530+r.Intn(40)) + "\n")
		}
	}
	for _, f := range fs {
		noise()
		sep := []string{" ", "  ", " \t", "\t ", " \t "}[r.Intn(5)]
		lead := []string{"", " ", "\t", "    "}[r.Intn(4)]
		tail := []string{"", " ", "  # the field", "\t", " # 0 = ok, 1 = low", "#x=y"}[r.Intn(6)]
		if r.Intn(90) == 0 {
			tail = " # " + strings.Repeat("z", 70000)
		}
		sb.WriteString(lead + f.Written + sep + f.Name + tail + "\n")
	}
	noise()
	return sb.String()
}

func renderDef(r *rand.Rand, d gDef) string {
	var sb strings.Builder
	sb.WriteString(renderFields(r, d.Top))
	for _, t := range d.Deps {
		sb.WriteString(strings.Repeat("=", []int{80, 3, 40}[r.Intn(3)]) + "\n")
		sb.WriteString("MSG: " + t.Name + "\n")
		sb.WriteString(renderFields(r, t.Fields))
	}
	return sb.String()
}

func treeEv(fs []ros1msg.Field) []any {
	out := []any{}
	for _, f := range fs {
		n := map[string]any{"name": f.Name, "written": f.Type.BaseType, "size": f.Type.FixedSize, "fields": []any{}, "item": []any{}}
		switch {
		case f.Type.IsArray:
			n["kind"] = "arr"
			if f.Type.Items != nil {
				n["item"] = []any{map[string]any{"base": f.Type.Items.BaseType, "rec": f.Type.Items.IsRecord, "fields": treeEv(f.Type.Items.Fields)}}
			}
		case f.Type.IsRecord:
			n["kind"] = "rec"
			n["fields"] = treeEv(f.Type.Fields)
		default:
			n["kind"] = "prim"
		}
		out = append(out, n)
	}
	return out
}

func fieldsEv(fs []gField) []any {
	out := []any{}
	for _, f := range fs {
		out = append(out, map[string]any{"name": f.Name, "written": f.Written, "base": f.Base, "arr": f.Arr, "size": f.Size, "qualified": f.Qualified, "bpkg": f.BPkg})
	}
	return out
}

// mrun: rendered type graphs compared with the parse tree (in process), and hostile definitions in isolated workers.
func mrun(args []string) error {
	fs := flag.NewFlagSet("mrun", flag.ExitOnError)
	seed := fs.Int64("seed", 1, "seed")
	n := fs.Int("n", 2000, "number of graphs")
	nh := fs.Int("hostile", 3000, "number of hostile definitions")
	out := fs.String("out", "trace.ndjson", "trace output")
	dir := fs.String("dir", os.TempDir(), "scratch directory")
	defsOut := fs.String("defs", "", "write the rendered definitions here (ndjson) for replay")
	in := fs.String("in", "", "replay: one rendered definition (json with text, graph)")
	fs.Parse(args)
	tf, err := os.Create(*out)
	if err != nil {
		return err
	}
	defer tf.Close()
	o := &outFiles{trace: bufio.NewWriterSize(tf, 1<<20)}
	defer o.trace.Flush()
	var dw *bufio.Writer
	if *defsOut != "" {
		df, err := os.Create(*defsOut)
		if err != nil {
			return err
		}
		defer df.Close()
		dw = bufio.NewWriterSize(df, 1<<20)
		defer dw.Flush()
	}
	tr := wl.NewTrace()
	tr.Add(wl.Ev{"ev": "Run", "id": "ros1msg"})
	r := rand.New(rand.NewSource(*seed))
	one := func(id int, d gDef, text string) {
		e := wl.Ev{"ev": "Def", "i": id, "pkg": d.Pkg, "top": fieldsEv(d.Top)}
		deps := []any{}
		for _, t := range d.Deps {
			deps = append(deps, map[string]any{"name": t.Name, "fields": fieldsEv(t.Fields)})
		}
		e["deps"] = deps
		func() {
			defer func() {
				if p := recover(); p != nil {
					e["ret"], e["tree"], e["why"] = "panic", []any{}, fmt.Sprint(p)
				}
			}()
			fields, err := ros1msg.ParseMessageDefinition(d.Pkg, []byte(text))
			if err != nil {
				e["ret"], e["tree"], e["why"] = "error", []any{}, errStr(err)
			} else {
				e["ret"], e["tree"], e["why"] = "ok", treeEv(fields), ""
			}
		}()
		tr.Add(e)
		if dw != nil {
			b, _ := json.Marshal(map[string]any{"i": id, "graph": d, "text": text})
			dw.Write(b)
			dw.WriteByte('\n')
		}
	}
	if *in != "" {
		b, err := os.ReadFile(*in)
		if err != nil {
			return err
		}
		var x struct {
			I     int    `json:"i"`
			Graph gDef   `json:"graph"`
			Text  string `json:"text"`
		}
		if err := json.Unmarshal(b, &x); err != nil {
			return err
		}
		one(x.I, x.Graph, x.Text)
		tr.Add(wl.Ev{"ev": "End"})
		return o.emit(tr)
	}
	var texts []string
	for i := 0; i < *n; i++ {
		flaw := ""
		if i%10 == 9 {
			flaw = []string{"missing", "missing-qualified"}[r.Intn(2)] // cycles would crash an unfixed parser in-process: they go to the workers
		} else if i%5 == 3 {
			flaw = "twins" // not a flaw: one short name defined in two (or three) packages
		}
		d := genGraph(r, flaw)
		text := renderDef(r, d)
		texts = append(texts, text)
		one(i, d, text)
	}
	// hostile definitions: cycles, unbalanced brackets, random bytes, mutated valid definitions
	casesPath := *dir + "/msgcases.ndjson"
	cf, err := os.Create(casesPath)
	if err != nil {
		return err
	}
	cw := bufio.NewWriterSize(cf, 1<<20)
	var kinds []string
	emit := func(kind string, data []byte) {
		c := hcase{I: len(kinds), EP: "ros1msg", Data: data, Base: "ros1msg", Rec: "-", Fld: kind, Mag: "-", Kind: kind}
		b, _ := json.Marshal(c)
		cw.Write(b)
		cw.WriteByte('\n')
		kinds = append(kinds, kind)
	}
	for i := 0; i < *nh; i++ {
		switch i % 7 {
		case 6:
			// malformed lines (nothing that reads as "type name") of every length and alphabet: ASCII, accented, CJK, emoji,
			// invalid UTF-8, mixtures; at top level or inside a dependency; LF or CRLF
			alpha := [][]string{{"x", "_", "9", "-"}, {"é", "ü", "ñ"}, {"温", "度", "計"}, {"😀", "🚗"}, {"\xff", "\xc3", "\x80"}, {"a", "é", "温", "😀", "\xfe"}}[r.Intn(6)]
			var sb strings.Builder
			for k, n := 0, []int{1, 7, 20, 40, 63, 64, 65, 100, 200, 1000}[r.Intn(10)]; k < n; k++ {
				sb.WriteString(alpha[r.Intn(len(alpha))])
			}
			line := sb.String()
			nl := []string{"\n", "\r\n"}[r.Intn(2)]
			if r.Intn(2) == 0 {
				emit("malformed-line", []byte("int32 ok"+nl+line+nl+"int32 after"+nl))
			} else {
				emit("malformed-line", []byte("pkg/Dep d"+nl+"===="+nl+"MSG: pkg/Dep"+nl+"int32 ok"+nl+line+nl))
			}
		case 0:
			emit("self-cycle", []byte(renderDef(r, genGraph(r, "self"))))
		case 1:
			emit("mutual-cycle", []byte(renderDef(r, genGraph(r, "mutual"))))
		case 2:
			br := []string{"]x[ f", "int32]3[ f", "a][ b", "x[[]] y", "x[ y", "x] y", "int32[99999999999999999999] f", "[] f", "][ f", "a/b/c[] f", "Header]1[ h"}
			emit("brackets", []byte("int32 ok\n"+br[r.Intn(len(br))]+"\n"))
		case 3:
			b := make([]byte, r.Intn(200))
			r.Read(b)
			emit("random-bytes", b)
		case 4:
			t := []byte(texts[r.Intn(len(texts))])
			for k := 0; k < 1+r.Intn(5) && len(t) > 0; k++ {
				t[r.Intn(len(t))] = []byte("[]=#/ \t\n\x00M")[r.Intn(10)]
			}
			emit("mutated", t)
		default:
			// cycles written with every reference form: qualified, package-relative, Header, mixed
			cyc := []string{
				"pkg/Top again\n====\nMSG: pkg/Top\npkg/Top again\nTop rel\n",
				"Node next\n====\nMSG: pkg/Node\nNode next\n",
				"Node[] children\n====\nMSG: pkg/Node\nint32 v\nNode[] children\n",
				"Header h\n====\nMSG: std_msgs/Header\nuint32 seq\nHeader inner\n",
				"A a\n====\nMSG: pkg/A\nB b\n====\nMSG: pkg/B\nA[3] back\n",
				"other/X x\n====\nMSG: other/X\nY y\n====\nMSG: other/Y\nX x\n",
				"A a\n====\nMSG: pkg/A\npkg/B b\n====\nMSG: pkg/B\nA back\n",
			}
			emit("cycle-forms", []byte(cyc[(i/6)%len(cyc)]))
		}
	}
	cw.Flush()
	cf.Close()
	outcomes := runCases(casesPath, len(kinds), *dir, 8)
	for i, k := range kinds {
		oc := outcomes[i]
		if oc == nil {
			oc = &houtcome{Class: "missing"}
		}
		tr.Add(wl.Ev{"ev": "MsgCase", "i": i, "kind": k, "class": oc.Class, "allocKiB": oc.AllocKiB, "ms": oc.Ms, "where": oc.Where})
	}
	tr.Add(wl.Ev{"ev": "End"})
	return o.emit(tr)
}
