// Package rosgen renders ROS 1 bag files (format 2.0) and ROS 2 SQLite (db3)
// databases from abstract descriptions, for the converters of go/ros. The bag
// encoder is written from the bag format description, independent of go/ros.
package rosgen

import (
	"bytes"
	"encoding/binary"
	"sort"

	"github.com/pierrec/lz4/v4"
)

// HField is one header field name=value.
type HField struct {
	Name  string
	Value []byte
}

// Rec is one abstract bag record.
type Rec struct {
	Kind string // header | conn | msg | chunk | index | chunkinfo
	// conn
	Conn   uint32
	Topic  string
	Fields []HField // connection header fields (data part): topic, type, md5sum, message_definition, ...
	// msg
	Secs, Nsecs uint32
	Payload     []byte
	// chunk
	Compression string
	Inner       []Rec
}

func u32(v uint32) []byte { b := make([]byte, 4); binary.LittleEndian.PutUint32(b, v); return b }
func u64(v uint64) []byte { b := make([]byte, 8); binary.LittleEndian.PutUint64(b, v); return b }

func header(fields []HField) []byte {
	var b bytes.Buffer
	for _, f := range fields {
		b.Write(u32(uint32(len(f.Name) + 1 + len(f.Value))))
		b.WriteString(f.Name)
		b.WriteByte('=')
		b.Write(f.Value)
	}
	return b.Bytes()
}

func record(hdr []HField, data []byte) []byte {
	h := header(hdr)
	var b bytes.Buffer
	b.Write(u32(uint32(len(h))))
	b.Write(h)
	b.Write(u32(uint32(len(data))))
	b.Write(data)
	return b.Bytes()
}

// EncodeRec serialises one record (chunks recursively).
// Bz2 compresses a chunk body with bzip2; installed by the driver.
var Bz2 func([]byte) []byte

func EncodeRec(r Rec) []byte {
	switch r.Kind {
	case "header":
		data := bytes.Repeat([]byte{' '}, 64)
		return record([]HField{{"op", []byte{0x03}}, {"index_pos", u64(0)}, {"conn_count", u32(0)}, {"chunk_count", u32(0)}}, data)
	case "conn":
		return record([]HField{{"op", []byte{0x07}}, {"conn", u32(r.Conn)}, {"topic", []byte(r.Topic)}}, header(r.Fields))
	case "msg":
		t := append(u32(r.Secs), u32(r.Nsecs)...)
		return record([]HField{{"op", []byte{0x02}}, {"conn", u32(r.Conn)}, {"time", t}}, r.Payload)
	case "index":
		return record([]HField{{"op", []byte{0x04}}, {"ver", u32(1)}, {"conn", u32(r.Conn)}, {"count", u32(0)}}, nil)
	case "chunkinfo":
		return record([]HField{{"op", []byte{0x06}}, {"ver", u32(1)}, {"chunk_pos", u64(0)}, {"start_time", u64(0)}, {"end_time", u64(0)}, {"count", u32(0)}}, nil)
	case "chunk":
		var inner bytes.Buffer
		for _, x := range r.Inner {
			inner.Write(EncodeRec(x))
		}
		data := inner.Bytes()
		switch r.Compression {
		case "lz4":
			var c bytes.Buffer
			w := lz4.NewWriter(&c)
			w.Write(data)
			w.Close()
			data2 := c.Bytes()
			return record([]HField{{"op", []byte{0x05}}, {"compression", []byte("lz4")}, {"size", u32(uint32(len(data)))}}, data2)
		case "bz2":
			// Go has no bzip2 encoder: the driver plugs one in (the Python standard library's)
			if Bz2 == nil {
				panic("rosgen: no bzip2 encoder installed")
			}
			return record([]HField{{"op", []byte{0x05}}, {"compression", []byte("bz2")}, {"size", u32(uint32(len(data)))}}, Bz2(data))
		default:
			return record([]HField{{"op", []byte{0x05}}, {"compression", []byte("none")}, {"size", u32(uint32(len(data)))}}, data)
		}
	}
	return nil
}

// EncodeBag serialises a whole bag.
func EncodeBag(recs []Rec) []byte {
	var b bytes.Buffer
	b.WriteString("#ROSBAG V2.0\n")
	for _, r := range recs {
		b.Write(EncodeRec(r))
	}
	return b.Bytes()
}

// SortedFields returns the fields sorted by name (maps in the MCAP output are sorted by key).
func SortedFields(fs []HField) []HField {
	out := append([]HField{}, fs...)
	sort.Slice(out, func(i, j int) bool { return out[i].Name < out[j].Name })
	return out
}
