// Package run drives the real go/mcap code and records what it does.
package run

import (
	"bytes"
	"errors"
	"fmt"
	"io"
	"sort"

	"github.com/foxglove/mcap/go/mcap"
	"github.com/klauspost/compress/zstd"
	"github.com/pierrec/lz4/v4"

	"verifharness/refmcap"
	"verifharness/wl"
)

// ---- custom compressor pair ("xor"): a caller-supplied format the library does not know.

type xorWriter struct{ w io.Writer }

func (x *xorWriter) Write(p []byte) (int, error) {
	q := make([]byte, len(p))
	for i, c := range p {
		q[i] = c ^ 0x5a
	}
	n, err := x.w.Write(q)
	return n, err
}
func (x *xorWriter) Close() error      { return nil }
func (x *xorWriter) Reset(w io.Writer) { x.w = w }

type xorReader struct{ r io.Reader }

func (x *xorReader) Read(p []byte) (int, error) {
	n, err := x.r.Read(p)
	for i := 0; i < n; i++ {
		p[i] ^= 0x5a
	}
	return n, err
}
func (x *xorReader) Reset(r io.Reader) error { x.r = r; return nil }

// XorDecompress undoes the custom format for the independent decoder.
func XorDecompress(b []byte) []byte {
	out := make([]byte, len(b))
	for i, c := range b {
		out[i] = c ^ 0x5a
	}
	return out
}

// Decompressors returns the reader-side half of the custom pair.
func Decompressors() map[mcap.CompressionFormat]mcap.ResettableReader {
	return map[mcap.CompressionFormat]mcap.ResettableReader{"xor": &xorReader{}}
}

type lz4Resettable struct{ *lz4.Reader }

func (l lz4Resettable) Reset(r io.Reader) error { l.Reader.Reset(r); return nil }

// CustomDecompressors returns caller-supplied decoders for every format: the xor pair, a zstd decoder that ignores the
// frame checksum, and an lz4 reader behind the ResettableReader interface.
func CustomDecompressors() map[mcap.CompressionFormat]mcap.ResettableReader {
	m := Decompressors()
	if zr, err := zstd.NewReader(nil, zstd.IgnoreChecksum(true)); err == nil {
		m[mcap.CompressionZSTD] = zr
	}
	m[mcap.CompressionLZ4] = lz4Resettable{lz4.NewReader(nil)}
	return m
}

// Options converts a workload configuration to writer options.
func Options(c wl.Cfg) *mcap.WriterOptions {
	o := &mcap.WriterOptions{
		IncludeCRC: c.CRC, Chunked: c.Chunked, ChunkSize: c.ChunkSize,
		CompressionLevel:    mcap.CompressionLevel(c.Level),
		SkipMessageIndexing: c.SkipMsgIdx, SkipStatistics: c.SkipStats,
		SkipRepeatedSchemas: c.SkipRepSchemas, SkipRepeatedChannelInfos: c.SkipRepChannels,
		SkipAttachmentIndex: c.SkipAttIdx, SkipMetadataIndex: c.SkipMdIdx, SkipChunkIndex: c.SkipChunkIdx,
		SkipSummaryOffsets: c.SkipSumOffsets, OverrideLibrary: c.OverrideLibrary, SkipMagic: c.SkipMagic,
	}
	switch c.Compression {
	case "xor":
		o.Compressor = mcap.NewCustomCompressor("xor", &xorWriter{})
	default:
		o.Compression = mcap.CompressionFormat(c.Compression)
	}
	return o
}

func mdMap(m []wl.KV) map[string]string {
	out := make(map[string]string, len(m))
	for _, kv := range m {
		out[string(kv.K)] = string(kv.V)
	}
	return out
}

// MdEv renders a call's map argument as a set-like list (sorted by key bytes,
// last value wins) for the trace.
func MdEv(m []wl.KV) []any {
	mm := map[string]string{}
	for _, kv := range m {
		mm[string(kv.K)] = string(kv.V)
	}
	keys := make([]string, 0, len(mm))
	for k := range mm {
		keys = append(keys, k)
	}
	sort.Strings(keys)
	out := make([]any, 0, len(keys))
	for _, k := range keys {
		out = append(out, map[string]any{"k": wl.Blob(k), "v": wl.Blob(mm[k])})
	}
	return out
}

// attachment data sources (C14)
type srcReader struct {
	data   []byte
	off    int
	failAt int // <0: never
	err    error
}

func (s *srcReader) Read(p []byte) (int, error) {
	if s.failAt >= 0 && s.off >= s.failAt {
		return 0, s.err
	}
	if s.off >= len(s.data) {
		return 0, io.EOF
	}
	end := len(s.data)
	if s.failAt >= 0 && end > s.failAt {
		end = s.failAt
	}
	n := copy(p, s.data[s.off:end])
	s.off += n
	return n, nil
}

var ErrSource = errors.New("verif: injected attachment source failure")

// CallEv renders the arguments of a call.
func CallEv(i int, c wl.Call) wl.Ev {
	e := wl.Ev{"ev": "Call", "i": i + 1, "op": c.Op, "refused": c.Refused}
	switch c.Op {
	case "header":
		e["profile"] = wl.Blob(c.Profile)
		e["library"] = wl.Blob(c.Library)
	case "schema":
		e["id"] = int(c.ID)
		e["name"] = wl.Blob(c.Name)
		e["enc"] = wl.Blob(c.Enc)
		e["data"] = wl.Blob(c.Data)
	case "channel":
		e["id"] = int(c.ID)
		e["schema"] = int(c.Schema)
		e["topic"] = wl.Blob(c.Topic)
		e["menc"] = wl.Blob(c.Menc)
		e["md"] = MdEv(c.MD)
	case "message":
		e["ch"] = int(c.Ch)
		e["seq"] = wl.Seq(c.Seq)
		e["log"] = wl.Tm(c.Log)
		e["pub"] = wl.Tm(c.Pub)
		e["data"] = wl.Blob(c.Data)
	case "attachment":
		e["log"] = wl.Tm(c.Log)
		e["create"] = wl.Tm(c.Create)
		e["name"] = wl.Blob(c.Name)
		e["media"] = wl.Blob(c.Media)
		e["data"] = wl.Blob(c.Data)
		e["dsize"] = uint64(len(c.Data))
		e["src"] = c.Src
	case "metadata":
		e["name"] = wl.Blob(c.Name)
		e["md"] = MdEv(c.MD)
	case "addschema":
		e["id"] = int(c.ID)
		e["name"] = wl.Blob(c.Name)
		e["enc"] = wl.Blob(c.Enc)
		e["data"] = wl.Blob(c.Data)
	case "addchannel":
		e["id"] = int(c.ID)
		e["schema"] = int(c.Schema)
		e["topic"] = wl.Blob(c.Topic)
		e["menc"] = wl.Blob(c.Menc)
		e["md"] = MdEv(c.MD)
	case "chunk":
		a := AssembleChunk(c, false)
		items := make([]any, 0, len(c.Inner))
		for j, x := range c.Inner {
			it := CallEv(j, x)
			delete(it, "ev")
			delete(it, "i")
			it["k"] = map[string]string{"schema": "Schema", "channel": "Channel", "message": "Message"}[x.Op]
			items = append(items, map[string]any(it))
		}
		e["items"] = items
		e["comp"] = c.CComp
		e["csize"] = uint64(len(a.Records))
		e["usize"] = a.USize
		e["idx"] = c.Idx
		given := make([]any, 0, len(a.Given))
		for _, g := range a.Given {
			ents := make([]any, 0, len(g.Entries))
			for _, x := range g.Entries {
				ents = append(ents, map[string]any{"t": wl.Tm(x.Time), "off": x.Offset})
			}
			given = append(given, map[string]any{"ch": int(g.Ch), "entries": ents})
		}
		e["given"] = given
	}
	return e
}

// GivenIdx is one message index handed to WriteChunkWithIndexes.
type GivenIdx struct {
	Ch      uint16
	Entries []refmcap.IdxEntry
}

// Assembled is a chunk put together by the caller (the harness) with the independent encoder.
type Assembled struct {
	Start, End, USize uint64
	CRC               uint32
	Records           []byte
	Given             []GivenIdx
	NMsgs             int
	PerCh             map[uint16]uint64
}

// AssembleChunk encodes the inner records of a "chunk" call with the independent encoder, computes the true time
// range, the CRC of the uncompressed records (0 unless crc) and the exact per-channel message indexes, arranged as
// the call's Idx mode says.
func AssembleChunk(c wl.Call, crc bool) *Assembled {
	a := &Assembled{PerCh: map[uint16]uint64{}}
	var raw []byte
	var order []uint16
	ents := map[uint16][]refmcap.IdxEntry{}
	first := true
	for _, x := range c.Inner {
		off := uint64(len(raw))
		switch x.Op {
		case "schema":
			raw = append(raw, refmcap.Frame(refmcap.OpSchema, refmcap.BodySchema(x.ID, x.Name, x.Enc, x.Data))...)
		case "channel":
			md := make([]refmcap.KV, 0, len(x.MD))
			mm := map[string]string{}
			for _, kv := range x.MD {
				mm[string(kv.K)] = string(kv.V)
			}
			keys := make([]string, 0, len(mm))
			for k := range mm {
				keys = append(keys, k)
			}
			sort.Strings(keys)
			for _, k := range keys {
				md = append(md, refmcap.KV{K: []byte(k), V: []byte(mm[k])})
			}
			raw = append(raw, refmcap.Frame(refmcap.OpChannel, refmcap.BodyChannel(x.ID, x.Schema, x.Topic, x.Menc, md))...)
		case "message":
			raw = append(raw, refmcap.Frame(refmcap.OpMessage, refmcap.BodyMessage(x.Ch, x.Seq, x.Log, x.Pub, x.Data))...)
			if _, ok := ents[x.Ch]; !ok {
				order = append(order, x.Ch)
			}
			ents[x.Ch] = append(ents[x.Ch], refmcap.IdxEntry{Time: x.Log, Offset: off})
			if first || x.Log < a.Start {
				a.Start = x.Log
			}
			if first || x.Log > a.End {
				a.End = x.Log
			}
			first = false
			a.NMsgs++
			a.PerCh[x.Ch]++
		}
	}
	a.USize = uint64(len(raw))
	if crc {
		a.CRC = refmcap.CRC(raw)
	}
	rec, err := refmcap.Compress(c.CComp, raw)
	if err != nil {
		rec = raw
	}
	a.Records = rec
	switch c.Idx {
	case "none":
	case "rev":
		for i := len(order) - 1; i >= 0; i-- {
			a.Given = append(a.Given, GivenIdx{Ch: order[i], Entries: ents[order[i]]})
		}
	case "extra":
		a.Given = append(a.Given, GivenIdx{Ch: 4242})
		for _, ch := range order {
			a.Given = append(a.Given, GivenIdx{Ch: ch, Entries: ents[ch]})
		}
		a.Given = append(a.Given, GivenIdx{Ch: 4243})
	default:
		for _, ch := range order {
			a.Given = append(a.Given, GivenIdx{Ch: ch, Entries: ents[ch]})
		}
	}
	return a
}

// StateEv projects the writer's public state.
func StateEv(w *mcap.Writer) map[string]any {
	st := w.Statistics
	per := make([]any, 0, len(st.ChannelMessageCounts))
	ids := make([]int, 0, len(st.ChannelMessageCounts))
	for id := range st.ChannelMessageCounts {
		ids = append(ids, int(id))
	}
	sort.Ints(ids)
	for _, id := range ids {
		per = append(per, map[string]any{"ch": id, "n": st.ChannelMessageCounts[uint16(id)]})
	}
	return map[string]any{
		"off": w.Offset(), "msgs": st.MessageCount, "schemas": int(st.SchemaCount), "channels": st.ChannelCount,
		"atts": st.AttachmentCount, "mds": st.MetadataCount, "chunks": st.ChunkCount,
		"start": wl.Tm(st.MessageStartTime), "end": wl.Tm(st.MessageEndTime), "per": per,
		"nci": len(w.ChunkIndexes), "nai": len(w.AttachmentIndexes), "nmi": len(w.MetadataIndexes),
	}
}

// Apply performs one call on the writer. The returned string is ok | err | panic.
func Apply(w *mcap.Writer, c wl.Call, crcOn bool) (ret string, err error) {
	defer func() {
		if r := recover(); r != nil {
			ret = "panic"
			err = fmt.Errorf("panic: %v", r)
		}
	}()
	switch c.Op {
	case "header":
		err = w.WriteHeader(&mcap.Header{Profile: string(c.Profile), Library: string(c.Library)})
	case "schema":
		err = w.WriteSchema(&mcap.Schema{ID: c.ID, Name: string(c.Name), Encoding: string(c.Enc), Data: c.Data})
	case "channel":
		err = w.WriteChannel(&mcap.Channel{ID: c.ID, SchemaID: c.Schema, Topic: string(c.Topic), MessageEncoding: string(c.Menc), Metadata: mdMap(c.MD)})
	case "message":
		err = w.WriteMessage(&mcap.Message{ChannelID: c.Ch, Sequence: c.Seq, LogTime: c.Log, PublishTime: c.Pub, Data: c.Data})
	case "attachment":
		src := &srcReader{data: c.Data, failAt: -1}
		size := uint64(len(c.Data))
		var n int
		switch {
		case c.Src == "":
		case sscan(c.Src, "short:%d", &n): // source ends n bytes early
			src.data = c.Data[:max(0, len(c.Data)-n)]
		case sscan(c.Src, "long:%d", &n): // source delivers n bytes more than declared
			src.data = append(append([]byte{}, c.Data...), bytes.Repeat([]byte{0xEE}, n)...)
		case sscan(c.Src, "fail:%d", &n): // source fails after n bytes
			src.failAt = n
			src.err = ErrSource
		}
		err = w.WriteAttachment(&mcap.Attachment{LogTime: c.Log, CreateTime: c.Create, Name: string(c.Name), MediaType: string(c.Media), DataSize: size, Data: src})
	case "metadata":
		err = w.WriteMetadata(&mcap.Metadata{Name: string(c.Name), Metadata: mdMap(c.MD)})
	case "addschema":
		w.AddSchema(&mcap.Schema{ID: c.ID, Name: string(c.Name), Encoding: string(c.Enc), Data: c.Data})
	case "addchannel":
		w.AddChannel(&mcap.Channel{ID: c.ID, SchemaID: c.Schema, Topic: string(c.Topic), MessageEncoding: string(c.Menc), Metadata: mdMap(c.MD)})
	case "chunk":
		a := AssembleChunk(c, crcOn)
		var idxs []*mcap.MessageIndex
		for _, g := range a.Given {
			mi := &mcap.MessageIndex{ChannelID: g.Ch}
			for _, x := range g.Entries {
				mi.Add(x.Time, x.Offset)
			}
			idxs = append(idxs, mi)
		}
		err = w.WriteChunkWithIndexes(&mcap.Chunk{MessageStartTime: a.Start, MessageEndTime: a.End, UncompressedSize: a.USize,
			UncompressedCRC: a.CRC, Compression: c.CComp, Records: a.Records}, idxs)
		if err == nil && a.USize > 0 {
			// the caller's part of the contract: WriteChunkWithIndexes does not count messages
			w.Statistics.MessageCount += uint64(a.NMsgs)
			for ch, n := range a.PerCh {
				w.Statistics.ChannelMessageCounts[ch] += n
			}
		}
	case "close":
		err = w.Close()
	default:
		return "err", fmt.Errorf("unknown op %q", c.Op)
	}
	if err != nil {
		return "err", err
	}
	return "ok", nil
}

func sscan(s, f string, p *int) bool {
	n, err := fmt.Sscanf(s, f, p)
	return err == nil && n == 1
}

// CountingSink counts Write calls on the destination.
type CountingSink struct {
	W io.Writer
	N int
}

func (c *CountingSink) Write(p []byte) (int, error) {
	c.N++
	return c.W.Write(p)
}

// ErrSink is the injected destination failure.
var ErrSink = errors.New("verif: injected sink failure")

// FaultSink accepts bytes until the k-th Write call (0-based), which it fails
// with an error after accepting none ("err"), half ("short") or all ("full") of the bytes;
// permanent faults keep failing afterwards.
type FaultSink struct {
	K         int
	Kind      string
	Permanent bool
	N         int
	Accepted  []byte
	Fired     bool
	FiredCall int // index (1-based) of the call active when the fault first fired; 0 = NewWriter
	AtFail    []byte
	Current   int
}

func (f *FaultSink) Write(p []byte) (int, error) {
	i := f.N
	f.N++
	if i == f.K || (f.Permanent && i > f.K) {
		n := 0
		switch f.Kind {
		case "short":
			n = len(p) / 2
		case "full": // the destination took every byte of this write and reports an error with it (a quota reached
			// exactly, a tee whose second leg failed, a flush after accepting the buffer)
			n = len(p)
		}
		f.Accepted = append(f.Accepted, p[:n]...)
		if !f.Fired {
			f.Fired = true
			f.FiredCall = f.Current
			f.AtFail = append([]byte{}, f.Accepted...)
		}
		return n, ErrSink
	}
	f.Accepted = append(f.Accepted, p...)
	return len(p), nil
}

// WriterResult is what a writer run produced.
type WriterResult struct {
	Bytes  []byte
	Rets   []string
	Errs   []error
	States []map[string]any // the writer's projected public state (StateEv + nw) after every call
}

// RunWriter executes the workload against the real writer with the given sink
// (nil = in-memory buffer) and appends Run/Call events to tr.
func RunWriter(tr *wl.Trace, w wl.Workload, sink io.Writer, buf *bytes.Buffer) *WriterResult {
	res := &WriterResult{}
	if sink == nil {
		sink = buf
	}
	fs, _ := sink.(*FaultSink)
	cs := &CountingSink{W: sink}
	sink = cs
	tr.Add(wl.Ev{"ev": "Run", "id": w.ID, "cfg": wl.CfgEv(w.Cfg), "lib": wl.Blob("mcap-go/" + trimV(mcap.Version))})
	var writer *mcap.Writer
	var err error
	func() {
		defer func() {
			if r := recover(); r != nil {
				err = fmt.Errorf("panic: %v", r)
			}
		}()
		writer, err = mcap.NewWriter(sink, Options(w.Cfg))
	}()
	if err != nil {
		tr.Add(wl.Ev{"ev": "New", "ret": "err", "why": err.Error()})
		res.Bytes = buf.Bytes()
		return res
	}
	st0 := StateEv(writer)
	st0["nw"] = cs.N
	tr.Add(wl.Ev{"ev": "New", "ret": "ok", "st": st0})
	for i, c := range w.Calls {
		if fs != nil {
			fs.Current = i + 1
		}
		ret, cerr := Apply(writer, c, w.Cfg.CRC)
		e := CallEv(i, c)
		if c.Op == "header" {
			e["explib"] = wl.Blob(ExpectedLibrary(w.Cfg, c.Library, "mcap-go/"+trimV(mcap.Version)))
		}
		e["ret"] = ret
		if cerr != nil {
			e["why"] = cerr.Error()
		}
		st := StateEv(writer)
		st["nw"] = cs.N
		e["st"] = st
		tr.Add(e)
		res.Rets = append(res.Rets, ret)
		res.Errs = append(res.Errs, cerr)
		res.States = append(res.States, st)
	}
	if buf != nil {
		res.Bytes = buf.Bytes()
	}
	return res
}

// ExpectedLibrary is the documented header rule: the library identifier, with a
// differing caller string appended after "; ", unless OverrideLibrary is set.
func ExpectedLibrary(cfg wl.Cfg, lib []byte, id string) []byte {
	if cfg.OverrideLibrary {
		return lib
	}
	if len(lib) != 0 && string(lib) != id {
		return []byte(id + "; " + string(lib))
	}
	return []byte(id)
}

func trimV(v string) string {
	if len(v) > 0 && v[0] == 'v' {
		return v[1:]
	}
	return v
}

// DecodeForTrace decodes file bytes with the independent decoder, undoing the
// custom compression first so that inner records are visible.
func DecodeForTrace(b []byte) *refmcap.File {
	f := refmcap.DecodeFile(b)
	for _, r := range f.Recs {
		if r.Op == refmcap.OpChunk && r.OK && string(r.Compression) == "xor" {
			r.Uncompressed = XorDecompress(r.Records)
			r.DecompOK = true
			r.Why = ""
			r.Inner, r.InnerTrailing = refmcap.DecodeStream(r.Uncompressed, 0, true)
		}
	}
	return f
}
