package run

import (
	"bytes"
	"fmt"
	"io"

	"github.com/foxglove/mcap/go/mcap"
)

// EntryPoints lists the public decode entry points exercised on hostile input.
var EntryPoints = []string{
	"lex", "lex-validate", "lex-limits", "lex-emitchunks", "lex-invalid", "parse",
	"info", "messages", "messages-scan", "messages-log", "messages-rlog", "messages-mdcb", "random-access",
}

// ExtraEntries holds entry points of other packages (ROS converters, message definition parser).
var ExtraEntries = map[string]func([]byte) error{}

type onlyReader struct{ r io.Reader }

func (o onlyReader) Read(p []byte) (int, error) { return o.r.Read(p) }

func source(b []byte, seek bool) io.Reader {
	if seek {
		return bytes.NewReader(b)
	}
	return onlyReader{bytes.NewReader(b)}
}

func lexTo(l *mcap.Lexer, limit int) error {
	var buf []byte
	for i := 0; i < limit; i++ {
		tt, rec, err := l.Next(buf)
		if err != nil {
			if tt == mcap.TokenInvalidChunk {
				continue
			}
			return err
		}
		if cap(rec) > cap(buf) && cap(rec) < 1<<20 {
			buf = rec[:0]
		}
	}
	return fmt.Errorf("verif: token limit reached (no progress?)")
}

func parseAll(b []byte) error {
	// every Parse* function on the body of every framed record (and on the raw input)
	try := func(op byte, body []byte) {
		switch mcap.OpCode(op) {
		case mcap.OpHeader:
			_, _ = mcap.ParseHeader(body)
		case mcap.OpFooter:
			_, _ = mcap.ParseFooter(body)
		case mcap.OpSchema:
			_, _ = mcap.ParseSchema(body)
		case mcap.OpChannel:
			_, _ = mcap.ParseChannel(body)
		case mcap.OpMessage:
			_, _ = mcap.ParseMessage(body)
		case mcap.OpChunk:
			_, _ = mcap.ParseChunk(body)
		case mcap.OpMessageIndex:
			_, _ = mcap.ParseMessageIndex(body)
		case mcap.OpChunkIndex:
			_, _ = mcap.ParseChunkIndex(body)
		case mcap.OpAttachmentIndex:
			_, _ = mcap.ParseAttachmentIndex(body)
		case mcap.OpStatistics:
			_, _ = mcap.ParseStatistics(body)
		case mcap.OpMetadata:
			_, _ = mcap.ParseMetadata(body)
		case mcap.OpMetadataIndex:
			_, _ = mcap.ParseMetadataIndex(body)
		case mcap.OpSummaryOffset:
			_, _ = mcap.ParseSummaryOffset(body)
		case mcap.OpDataEnd:
			_, _ = mcap.ParseDataEnd(body)
		}
	}
	off := 0
	if len(b) >= 8 {
		off = 8
	}
	for off+9 <= len(b) {
		op := b[off]
		n := uint64(0)
		for k := 0; k < 8; k++ {
			n |= uint64(b[off+1+k]) << (8 * k)
		}
		end := len(b)
		if n <= uint64(len(b)-off-9) {
			end = off + 9 + int(n)
		}
		try(op, b[off+9:end])
		if end <= off {
			break
		}
		off = end
	}
	for op := byte(1); op <= 15; op++ {
		try(op, b)
	}
	return nil
}

func iterate(b []byte, opts ...mcap.ReadOpt) error {
	r, err := mcap.NewReader(bytes.NewReader(b))
	if err != nil {
		return err
	}
	defer r.Close()
	it, err := r.Messages(opts...)
	if err != nil {
		return err
	}
	msg := &mcap.Message{}
	for i := 0; i < 1<<20; i++ {
		_, _, _, err := it.NextInto(msg)
		if err != nil {
			return err
		}
	}
	return fmt.Errorf("verif: message limit reached (no progress?)")
}

// RunEntry runs one entry point over the input. The returned error is io.EOF for a clean end.
func RunEntry(ep string, b []byte, seek bool) error {
	switch ep {
	case "lex":
		l, err := mcap.NewLexer(source(b, seek))
		if err != nil {
			return err
		}
		defer l.Close()
		return lexTo(l, 1<<20)
	case "lex-validate", "lex-invalid", "lex-limits":
		lo := &mcap.LexerOptions{ValidateChunkCRCs: true, ComputeAttachmentCRCs: true, EmitInvalidChunks: ep == "lex-invalid",
			AttachmentCallback: func(ar *mcap.AttachmentReader) error {
				if _, err := io.Copy(io.Discard, ar.Data()); err != nil {
					return err
				}
				_, _ = ar.ComputedCRC()
				_, _ = ar.ParsedCRC()
				return nil
			}}
		if ep == "lex-limits" {
			lo.MaxRecordSize, lo.MaxDecompressedChunkSize = 1<<20, 1<<20
		}
		l, err := mcap.NewLexer(source(b, seek), lo)
		if err != nil {
			return err
		}
		defer l.Close()
		return lexTo(l, 1<<20)
	case "lex-emitchunks":
		l, err := mcap.NewLexer(source(b, seek), &mcap.LexerOptions{EmitChunks: true, SkipMagic: true})
		if err != nil {
			return err
		}
		defer l.Close()
		return lexTo(l, 1<<20)
	case "parse":
		return parseAll(b)
	case "info":
		r, err := mcap.NewReader(bytes.NewReader(b))
		if err != nil {
			return err
		}
		defer r.Close()
		info, err := r.Info()
		if err != nil {
			return err
		}
		if info.Statistics != nil {
			_ = info.ChannelCounts
		}
		return nil
	case "messages":
		return iterate(b)
	case "messages-scan":
		return iterate(b, mcap.UsingIndex(false))
	case "messages-log":
		return iterate(b, mcap.InOrder(mcap.LogTimeOrder))
	case "messages-rlog":
		return iterate(b, mcap.InOrder(mcap.ReverseLogTimeOrder))
	case "messages-mdcb":
		return iterate(b, mcap.WithMetadataCallback(func(*mcap.Metadata) error { return nil }))
	case "random-access":
		r, err := mcap.NewReader(bytes.NewReader(b))
		if err != nil {
			return err
		}
		defer r.Close()
		info, err := r.Info()
		if err != nil {
			return err
		}
		offs := []uint64{0, 1, 8, uint64(len(b)), uint64(len(b)) + 1, 1 << 31, 1<<63 - 1, 1 << 63, ^uint64(0) - 9, ^uint64(0) - 8, ^uint64(0)}
		for _, a := range info.AttachmentIndexes {
			offs = append(offs, a.Offset)
		}
		for _, m := range info.MetadataIndexes {
			offs = append(offs, m.Offset)
		}
		for _, o := range offs {
			if ar, err := r.GetAttachmentReader(o); err == nil {
				_, _ = io.Copy(io.Discard, io.LimitReader(ar.Data(), 1<<22))
			}
			_, _ = r.GetMetadata(o)
		}
		return nil
	}
	if h, ok := ExtraEntries[ep]; ok {
		return h(b)
	}
	return fmt.Errorf("unknown entry point %q", ep)
}
