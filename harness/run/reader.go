package run

import (
	"bytes"
	"errors"
	"fmt"
	"hash/crc32"
	"io"
	"sort"

	"github.com/foxglove/mcap/go/mcap"

	"verifharness/wl"
)

func goMapEv(m map[string]string) []any {
	keys := make([]string, 0, len(m))
	for k := range m {
		keys = append(keys, k)
	}
	sort.Strings(keys)
	out := make([]any, 0, len(keys))
	for _, k := range keys {
		out = append(out, map[string]any{"k": wl.Blob(k), "v": wl.Blob(m[k])})
	}
	return out
}

func chMapEv(m map[uint16]uint64, key string) []any {
	ids := make([]int, 0, len(m))
	for id := range m {
		ids = append(ids, int(id))
	}
	sort.Ints(ids)
	out := make([]any, 0, len(ids))
	for _, id := range ids {
		out = append(out, map[string]any{"ch": id, key: m[uint16(id)]})
	}
	return out
}

func SchemaEv(s *mcap.Schema) any {
	if s == nil {
		return map[string]any{"k": "None"}
	}
	return map[string]any{"k": "Schema", "id": int(s.ID), "name": wl.Blob(s.Name), "enc": wl.Blob(s.Encoding), "data": wl.Blob(s.Data)}
}
func ChannelEv(c *mcap.Channel) any {
	if c == nil {
		return map[string]any{"k": "None"}
	}
	return map[string]any{"k": "Channel", "id": int(c.ID), "schema": int(c.SchemaID), "topic": wl.Blob(c.Topic), "menc": wl.Blob(c.MessageEncoding), "md": goMapEv(c.Metadata)}
}
func MessageEv(m *mcap.Message) map[string]any {
	return map[string]any{"k": "Message", "ch": int(m.ChannelID), "seq": wl.Seq(m.Sequence), "log": wl.Tm(m.LogTime), "pub": wl.Tm(m.PublishTime), "data": wl.Blob(append([]byte{}, m.Data...))}
}
func StatsEv(s *mcap.Statistics) map[string]any {
	return map[string]any{"k": "Statistics", "msgs": s.MessageCount, "schemas": int(s.SchemaCount), "channels": s.ChannelCount,
		"atts": s.AttachmentCount, "mds": s.MetadataCount, "chunks": s.ChunkCount,
		"start": wl.Tm(s.MessageStartTime), "end": wl.Tm(s.MessageEndTime), "per": chMapEv(s.ChannelMessageCounts, "n")}
}
func ChunkIndexEv(x *mcap.ChunkIndex) map[string]any {
	return map[string]any{"k": "ChunkIndex", "start": wl.Tm(x.MessageStartTime), "end": wl.Tm(x.MessageEndTime),
		"cstart": x.ChunkStartOffset, "clen": x.ChunkLength, "offs": chMapEv(x.MessageIndexOffsets, "off"),
		"milen": x.MessageIndexLength, "comp": string(x.Compression), "csize": x.CompressedSize, "usize": x.UncompressedSize}
}
func AttIndexEv(x *mcap.AttachmentIndex) map[string]any {
	return map[string]any{"k": "AttachmentIndex", "offset": x.Offset, "length": x.Length, "log": wl.Tm(x.LogTime),
		"create": wl.Tm(x.CreateTime), "dsize": x.DataSize, "name": wl.Blob(x.Name), "media": wl.Blob(x.MediaType)}
}
func MdIndexEv(x *mcap.MetadataIndex) map[string]any {
	return map[string]any{"k": "MetadataIndex", "offset": x.Offset, "length": x.Length, "name": wl.Blob(x.Name)}
}
func MetadataEv(x *mcap.Metadata) map[string]any {
	return map[string]any{"k": "Metadata", "name": wl.Blob(x.Name), "md": goMapEv(x.Metadata)}
}

// TokEv parses a lexer token with go/mcap's own parsers and abstracts it.
func TokEv(tt mcap.TokenType, rec []byte) (map[string]any, error) {
	switch tt {
	case mcap.TokenHeader:
		h, err := mcap.ParseHeader(rec)
		if err != nil {
			return nil, err
		}
		return map[string]any{"k": "Header", "profile": wl.Blob(h.Profile), "library": wl.Blob(h.Library)}, nil
	case mcap.TokenFooter:
		f, err := mcap.ParseFooter(rec)
		if err != nil {
			return nil, err
		}
		return map[string]any{"k": "Footer", "ss": f.SummaryStart, "sos": f.SummaryOffsetStart, "crcz": f.SummaryCRC == 0}, nil
	case mcap.TokenSchema:
		s, err := mcap.ParseSchema(rec)
		if err != nil {
			return nil, err
		}
		return SchemaEv(s).(map[string]any), nil
	case mcap.TokenChannel:
		c, err := mcap.ParseChannel(rec)
		if err != nil {
			return nil, err
		}
		return ChannelEv(c).(map[string]any), nil
	case mcap.TokenMessage:
		m, err := mcap.ParseMessage(rec)
		if err != nil {
			return nil, err
		}
		return MessageEv(m), nil
	case mcap.TokenMessageIndex:
		x, err := mcap.ParseMessageIndex(rec)
		if err != nil {
			return nil, err
		}
		ents := make([]any, 0)
		for _, e := range x.Entries() {
			ents = append(ents, map[string]any{"t": wl.Tm(e.Timestamp), "off": e.Offset})
		}
		return map[string]any{"k": "MessageIndex", "ch": int(x.ChannelID), "entries": ents}, nil
	case mcap.TokenChunkIndex:
		x, err := mcap.ParseChunkIndex(rec)
		if err != nil {
			return nil, err
		}
		return ChunkIndexEv(x), nil
	case mcap.TokenAttachmentIndex:
		x, err := mcap.ParseAttachmentIndex(rec)
		if err != nil {
			return nil, err
		}
		return AttIndexEv(x), nil
	case mcap.TokenStatistics:
		x, err := mcap.ParseStatistics(rec)
		if err != nil {
			return nil, err
		}
		return StatsEv(x), nil
	case mcap.TokenMetadata:
		x, err := mcap.ParseMetadata(rec)
		if err != nil {
			return nil, err
		}
		return MetadataEv(x), nil
	case mcap.TokenMetadataIndex:
		x, err := mcap.ParseMetadataIndex(rec)
		if err != nil {
			return nil, err
		}
		return MdIndexEv(x), nil
	case mcap.TokenSummaryOffset:
		x, err := mcap.ParseSummaryOffset(rec)
		if err != nil {
			return nil, err
		}
		return map[string]any{"k": "SummaryOffset", "op": opKind(byte(x.GroupOpcode)), "gstart": x.GroupStart, "glen": x.GroupLength}, nil
	case mcap.TokenDataEnd:
		x, err := mcap.ParseDataEnd(rec)
		if err != nil {
			return nil, err
		}
		return map[string]any{"k": "DataEnd", "crcz": x.DataSectionCRC == 0}, nil
	case mcap.TokenChunk:
		return map[string]any{"k": "Chunk"}, nil
	case mcap.TokenInvalidChunk:
		return map[string]any{"k": "InvalidChunk"}, nil
	}
	return nil, fmt.Errorf("unexpected token type %v", tt)
}

func opKind(op byte) string {
	names := map[byte]string{1: "Header", 2: "Footer", 3: "Schema", 4: "Channel", 5: "Message", 6: "Chunk", 7: "MessageIndex",
		8: "ChunkIndex", 9: "Attachment", 10: "AttachmentIndex", 11: "Statistics", 12: "Metadata", 13: "MetadataIndex", 14: "SummaryOffset", 15: "DataEnd"}
	if n, ok := names[op]; ok {
		return n
	}
	return "Unknown"
}

// LexOpts selects lexer options for a run.
type LexOpts struct {
	SkipMagic, Validate, EmitInvalid, AttCRC, Attachments bool
	// CustomCodecs: the caller supplies its own zstd and lz4 decompressors (LexerOptions.Decompressors), lenient ones that
	// do not verify the codecs' own checksums, so that only go/mcap's validation stands between damage and the caller
	CustomCodecs        bool
	MaxRecord, MaxChunk int
}

// ErrClass classifies how a read ended: eof | error | panic.
func ErrClass(err error) string {
	if err == nil {
		return "ok"
	}
	if errors.Is(err, io.EOF) && !errors.Is(err, io.ErrUnexpectedEOF) {
		return "eof"
	}
	return "error"
}

// LexResult is the outcome of lexing a source to its end.
type LexResult struct {
	Toks  []any // tokens including attachments (k="Attachment") in stream order
	End   string
	Err   error
	Stale []any // retained-value checks (C01)
}

// LexAll lexes r to the end with the real lexer.
func LexAll(r io.Reader, o LexOpts) (res *LexResult) {
	res = &LexResult{Toks: []any{}}
	defer func() {
		if p := recover(); p != nil {
			res.End = "panic"
			res.Err = fmt.Errorf("panic: %v", p)
		}
	}()
	lo := &mcap.LexerOptions{SkipMagic: o.SkipMagic, ValidateChunkCRCs: o.Validate, EmitInvalidChunks: o.EmitInvalid,
		ComputeAttachmentCRCs: o.AttCRC, MaxRecordSize: o.MaxRecord, MaxDecompressedChunkSize: o.MaxChunk, Decompressors: Decompressors()}
	if o.CustomCodecs {
		lo.Decompressors = CustomDecompressors()
	}
	if o.Attachments {
		lo.AttachmentCallback = func(ar *mcap.AttachmentReader) error {
			data, err := io.ReadAll(ar.Data())
			e := map[string]any{"k": "Attachment", "log": wl.Tm(ar.LogTime), "create": wl.Tm(ar.CreateTime), "name": wl.Blob(ar.Name),
				"media": wl.Blob(ar.MediaType), "dsize": ar.DataSize, "data": wl.Blob(data), "dataerr": err != nil}
			if err == nil {
				parsed, perr := ar.ParsedCRC()
				computed, cerr := ar.ComputedCRC()
				e["crcread"] = perr == nil && cerr == nil
				e["crcmatch"] = perr == nil && cerr == nil && parsed == computed
				e["crcz"] = perr == nil && parsed == 0
			} else {
				e["crcread"] = false
				e["crcmatch"] = false
				e["crcz"] = false
			}
			res.Toks = append(res.Toks, e)
			if err != nil {
				return err
			}
			return nil
		}
	}
	lexer, err := mcap.NewLexer(r, lo)
	if err != nil {
		res.End, res.Err = ErrClass(err), err
		return res
	}
	defer lexer.Close()
	var buf []byte
	for {
		tt, rec, err := lexer.Next(buf)
		if err != nil {
			if tt == mcap.TokenInvalidChunk {
				res.Toks = append(res.Toks, map[string]any{"k": "InvalidChunk"})
				continue
			}
			res.End, res.Err = ErrClass(err), err
			return res
		}
		if cap(rec) > cap(buf) {
			buf = rec[:0]
		}
		e, perr := TokEv(tt, rec)
		if perr != nil {
			res.End, res.Err = "error", fmt.Errorf("parse %v: %w", tt, perr)
			return res
		}
		res.Toks = append(res.Toks, e)
	}
}

// RangeCount reads all messages through the public helper mcap.Range over an unindexed iterator and reports how many
// the callback saw (with exact fields, compared by the caller through the count of distinct sequence numbers) and how it ended.
func RangeCount(b []byte) (res RetainResult) {
	defer func() {
		if p := recover(); p != nil {
			res.End = "panic"
		}
	}()
	reader, err := mcap.NewReader(bytes.NewReader(b))
	if err != nil {
		res.End = "error"
		return
	}
	defer reader.Close()
	it, err := reader.Messages(mcap.UsingIndex(false))
	if err != nil {
		res.End = "error"
		return
	}
	err = mcap.Range(it, func(_ *mcap.Schema, c *mcap.Channel, m *mcap.Message) error {
		if c == nil || m == nil || c.ID != m.ChannelID {
			res.Changed++
		}
		res.N++
		return nil
	})
	if err != nil {
		res.End = "error"
	} else {
		res.End = "eof"
	}
	return
}

// LexRetain lexes b with Next(nil) (or, with small, a fresh 4-byte buffer per call: too small for almost every record, so
// that the lexer has to provide the memory), keeps every returned record and a snapshot of it, and reports how many
// kept records changed by the time the read is over (C01: values already returned are not altered by later reads).
func LexRetain(b []byte, skipMagic, validate, small bool) (res RetainResult) {
	defer func() {
		if p := recover(); p != nil {
			res.End = "panic"
		}
	}()
	// the attachment readers handed to the callback are values returned to the caller too: a consumer may keep them (to list
	// the attachments after the read); what they say must not change when later attachments are lexed
	type keptAtt struct {
		ar   *mcap.AttachmentReader
		snap mcap.AttachmentReader
	}
	var atts []keptAtt
	lexer, err := mcap.NewLexer(bytes.NewReader(b), &mcap.LexerOptions{SkipMagic: skipMagic, ValidateChunkCRCs: validate, Decompressors: Decompressors(),
		AttachmentCallback: func(ar *mcap.AttachmentReader) error {
			atts = append(atts, keptAtt{ar, mcap.AttachmentReader{LogTime: ar.LogTime, CreateTime: ar.CreateTime, Name: ar.Name, MediaType: ar.MediaType, DataSize: ar.DataSize}})
			return nil
		}})
	if err != nil {
		res.End = "error"
		return
	}
	defer lexer.Close()
	defer func() {
		for _, k := range atts {
			res.N++
			if k.ar.LogTime != k.snap.LogTime || k.ar.CreateTime != k.snap.CreateTime || k.ar.Name != k.snap.Name || k.ar.MediaType != k.snap.MediaType || k.ar.DataSize != k.snap.DataSize {
				res.Changed++
			}
		}
	}()
	type kept struct{ rec, snap []byte }
	var all []kept
	for {
		var p []byte
		if small {
			p = make([]byte, 4)
		}
		_, rec, err := lexer.Next(p)
		if err != nil {
			res.End = ErrClass(err)
			break
		}
		all = append(all, kept{rec, append([]byte{}, rec...)})
	}
	res.N = len(all)
	for _, k := range all {
		if !bytes.Equal(k.rec, k.snap) {
			res.Changed++
		}
	}
	return
}

// LexShared lexes one file with several lexers that are all built from ONE LexerOptions value (and so from one Decompressors
// map, which names only the custom format): two one after the other, the first closed before the second starts, then two
// taking turns.  Each must return what a lexer with options of its own returns.  N counts the lexers, Changed those whose
// token stream differs.
func LexShared(b []byte, skipMagic, validate bool) (res RetainResult) {
	defer func() {
		if p := recover(); p != nil {
			res.End = "panic"
		}
	}()
	type tk struct {
		t mcap.TokenType
		h uint32
	}
	step := func(l *mcap.Lexer) (tk, error) {
		t, rec, err := l.Next(nil)
		if err != nil {
			return tk{}, err
		}
		return tk{t, crc32.ChecksumIEEE(rec)}, nil
	}
	all := func(l *mcap.Lexer) ([]tk, string) {
		var out []tk
		for {
			k, err := step(l)
			if err != nil {
				return out, ErrClass(err)
			}
			out = append(out, k)
		}
	}
	same := func(a, b []tk) bool {
		if len(a) != len(b) {
			return false
		}
		for i := range a {
			if a[i] != b[i] {
				return false
			}
		}
		return true
	}
	own, err := mcap.NewLexer(bytes.NewReader(b), &mcap.LexerOptions{SkipMagic: skipMagic, ValidateChunkCRCs: validate})
	if err != nil {
		res.End = "error"
		return
	}
	ref, refEnd := all(own)
	own.Close()
	res.End = refEnd
	// (a decompressor object in the map is the caller's and must not serve two lexers at once: the shared map names a format
	// the file does not use)
	shared := &mcap.LexerOptions{SkipMagic: skipMagic, ValidateChunkCRCs: validate,
		Decompressors: map[mcap.CompressionFormat]mcap.ResettableReader{"verif-unused": &xorReader{}}}
	judge := func(got []tk, end string) {
		res.N++
		if !same(got, ref) || end != refEnd {
			res.Changed++
		}
	}
	for i := 0; i < 2; i++ {
		l, err := mcap.NewLexer(bytes.NewReader(b), shared)
		if err != nil {
			res.N++
			res.Changed++
			continue
		}
		got, end := all(l)
		l.Close()
		judge(got, end)
	}
	l1, err1 := mcap.NewLexer(bytes.NewReader(b), shared)
	l2, err2 := mcap.NewLexer(bytes.NewReader(b), shared)
	if err1 != nil || err2 != nil {
		res.N += 2
		res.Changed += 2
		return
	}
	var g1, g2 []tk
	e1, e2 := "", ""
	for e1 == "" || e2 == "" {
		if e1 == "" {
			if k, err := step(l1); err != nil {
				e1 = ErrClass(err)
			} else {
				g1 = append(g1, k)
			}
		}
		if e2 == "" {
			if k, err := step(l2); err != nil {
				e2 = ErrClass(err)
			} else {
				g2 = append(g2, k)
			}
		}
	}
	l1.Close()
	l2.Close()
	judge(g1, e1)
	judge(g2, e2)
	return
}

// IterOpts selects how Reader.Messages is called.
type IterOpts struct {
	UseIndex   *bool  // nil: default
	Order      string // "" default, "file", "log", "rlog"
	Topics     [][]byte
	HasTopics  bool
	Start, End *uint64 // window through the nanosecond options
	Form       string  // "nanos" (default), "nanos-rev" (End option first), "legacy", "legacy-rev"
	MdCallback bool
}

// IterResult is the outcome of one message iteration.
type IterResult struct {
	Msgs   []any // {schema, channel, msg}
	Mds    []any
	End    string
	Err    error
	OpenOK bool
}

func ReadOpts(o IterOpts, mds *[]any) []mcap.ReadOpt {
	var opts []mcap.ReadOpt
	if o.UseIndex != nil {
		opts = append(opts, mcap.UsingIndex(*o.UseIndex))
	}
	switch o.Order {
	case "file":
		opts = append(opts, mcap.InOrder(mcap.FileOrder))
	case "log":
		opts = append(opts, mcap.InOrder(mcap.LogTimeOrder))
	case "rlog":
		opts = append(opts, mcap.InOrder(mcap.ReverseLogTimeOrder))
	}
	if o.HasTopics {
		ts := make([]string, len(o.Topics))
		for i, t := range o.Topics {
			ts[i] = string(t)
		}
		opts = append(opts, mcap.WithTopics(ts))
	}
	var so, eo mcap.ReadOpt
	legacy := o.Form == "legacy" || o.Form == "legacy-rev"
	legacyS, legacyE := legacy || o.Form == "mixed-a", legacy || o.Form == "mixed-b" // mixed: one bound through each API
	if o.Start != nil {
		if legacyS {
			so = mcap.After(int64(*o.Start))
		} else {
			so = mcap.AfterNanos(*o.Start)
		}
	}
	if o.End != nil {
		if legacyE {
			eo = mcap.Before(int64(*o.End))
		} else {
			eo = mcap.BeforeNanos(*o.End)
		}
	}
	if o.Form == "nanos-rev" || o.Form == "legacy-rev" {
		so, eo = eo, so
	}
	if so != nil {
		opts = append(opts, so)
	}
	if eo != nil {
		opts = append(opts, eo)
	}
	if o.MdCallback {
		opts = append(opts, mcap.WithMetadataCallback(func(m *mcap.Metadata) error {
			ev := MetadataEv(m)
			// exact canonical form (name and sorted key/value pairs) for multiset comparison by the drivers
			keys := make([]string, 0, len(m.Metadata))
			for k := range m.Metadata {
				keys = append(keys, k)
			}
			sort.Strings(keys)
			c := fmt.Sprintf("%q", m.Name)
			for _, k := range keys {
				c += fmt.Sprintf("|%q=%q", k, m.Metadata[k])
			}
			ev["canon"] = c
			*mds = append(*mds, ev)
			return nil
		}))
	}
	return opts
}

// Iterate runs Reader.Messages over the bytes with the given options.
func Iterate(rd io.Reader, o IterOpts) (res *IterResult) {
	res = &IterResult{Msgs: []any{}, Mds: []any{}}
	defer func() {
		if p := recover(); p != nil {
			res.End = "panic"
			res.Err = fmt.Errorf("panic: %v", p)
		}
	}()
	reader, err := mcap.NewReader(rd)
	if err != nil {
		res.End, res.Err = "error", err
		return res
	}
	defer reader.Close()
	it, err := reader.Messages(ReadOpts(o, &res.Mds)...)
	if err != nil {
		res.End, res.Err = "error", err
		return res
	}
	res.OpenOK = true
	msg := &mcap.Message{}
	for {
		s, c, m, err := it.NextInto(msg)
		if err != nil {
			res.End, res.Err = ErrClass(err), err
			return res
		}
		res.Msgs = append(res.Msgs, map[string]any{"schema": SchemaEv(s), "channel": ChannelEv(c), "msg": MessageEv(m)})
	}
}

// BytesReader returns a seekable reader over b.
func BytesReader(b []byte) *bytes.Reader { return bytes.NewReader(b) }

// RetainResult reports whether values returned by the iterator were altered by later reads.
type RetainResult struct {
	N, Changed int
	End        string
}

// RetainCheck reads all messages with Next(nil), keeps every returned pointer
// and a deep snapshot, and counts the values that changed afterwards.
// RetainVia reads all messages through Reader.Messages (scan when scan is set, the default read otherwise) while the caller
// supplies memory of its own and keeps what it was handed:
//   - "buf": Next(p) with a different buffer of varying capacity for every call; every (schema, channel, message) returned
//     is kept and compared with its snapshot once the read is over;
//   - "into2": NextInto alternating between two Message values (double buffering); after every call the other Message - the
//     previous result, which the caller still holds - must be what it was when it was returned.
//
// N counts the messages, Changed the results found altered.
func RetainVia(b []byte, scan bool, mode string) (res RetainResult) {
	defer func() {
		if p := recover(); p != nil {
			res.End = "panic"
		}
	}()
	reader, err := mcap.NewReader(bytes.NewReader(b))
	if err != nil {
		res.End = "error"
		return
	}
	defer reader.Close()
	var opts []mcap.ReadOpt
	if scan {
		opts = append(opts, mcap.UsingIndex(false))
	}
	it, err := reader.Messages(opts...)
	if err != nil {
		res.End = "error"
		return
	}
	msgSnap := func(m *mcap.Message) string {
		return fmt.Sprintf("M%d|%d|%d|%d|%x", m.ChannelID, m.Sequence, m.LogTime, m.PublishTime, m.Data)
	}
	if mode == "into2" {
		var two [2]mcap.Message
		var snaps [2]string
		for k := 0; ; k++ {
			cur, other := &two[k%2], (k+1)%2
			_, _, m, err := it.NextInto(cur)
			if err != nil {
				res.End = ErrClass(err)
				break
			}
			res.N++
			snaps[k%2] = msgSnap(m)
			if k > 0 && msgSnap(&two[other]) != snaps[other] {
				res.Changed++
			}
		}
		return
	}
	type kept struct {
		m    *mcap.Message
		snap string
	}
	var all []kept
	caps := []int{0, 16, 300, 4096, 70000, 1 << 20, 64, 2048}
	for k := 0; ; k++ {
		p := make([]byte, caps[k%len(caps)])
		_, _, m, err := it.Next(p)
		if err != nil {
			res.End = ErrClass(err)
			break
		}
		all = append(all, kept{m, msgSnap(m)})
	}
	res.N = len(all)
	for _, k := range all {
		if msgSnap(k.m) != k.snap {
			res.Changed++
		}
	}
	return
}

func RetainCheck(b []byte) (res RetainResult) {
	defer func() {
		if p := recover(); p != nil {
			res.End = "panic"
		}
	}()
	reader, err := mcap.NewReader(bytes.NewReader(b))
	if err != nil {
		res.End = "error"
		return
	}
	defer reader.Close()
	it, err := reader.Messages(mcap.UsingIndex(false))
	if err != nil {
		res.End = "error"
		return
	}
	type kept struct {
		s    *mcap.Schema
		c    *mcap.Channel
		m    *mcap.Message
		snap string
	}
	snap := func(s *mcap.Schema, c *mcap.Channel, m *mcap.Message) string {
		var sb bytes.Buffer
		if s != nil {
			fmt.Fprintf(&sb, "S%d|%q|%q|%x;", s.ID, s.Name, s.Encoding, s.Data)
		}
		if c != nil {
			fmt.Fprintf(&sb, "C%d|%d|%q|%q|", c.ID, c.SchemaID, c.Topic, c.MessageEncoding)
			for _, kv := range goMapEv(c.Metadata) {
				m := kv.(map[string]any)
				fmt.Fprintf(&sb, "%q=%q,", []byte(m["k"].(wl.Blob)), []byte(m["v"].(wl.Blob)))
			}
		}
		fmt.Fprintf(&sb, "M%d|%d|%d|%d|%x", m.ChannelID, m.Sequence, m.LogTime, m.PublishTime, m.Data)
		return sb.String()
	}
	var all []kept
	for {
		s, c, m, err := it.Next(nil)
		if err != nil {
			res.End = ErrClass(err)
			break
		}
		all = append(all, kept{s, c, m, snap(s, c, m)})
	}
	res.N = len(all)
	for _, k := range all {
		if snap(k.s, k.c, k.m) != k.snap {
			res.Changed++
		}
	}
	return
}
