package run

import (
	"bytes"
	"database/sql"
	"io"
	"os"
	"runtime/debug"

	"github.com/foxglove/mcap/go/mcap"
	"github.com/foxglove/mcap/go/ros"
	"github.com/foxglove/mcap/go/ros/ros1msg"
	_ "github.com/mattn/go-sqlite3"
)

func init() {
	ExtraEntries["ros1msg"] = func(b []byte) error {
		debug.SetMaxStack(64 << 20) // a runaway recursion ends the worker quickly (fatal error: stack overflow)
		_, err := ros1msg.ParseMessageDefinition("pkg", b)
		return err
	}
	// the bytes are a database file (or anything else); the ament tree is the one the driver wrote (VERIF_AMENT_ROOT)
	ExtraEntries["db3"] = func(b []byte) error {
		f, err := os.CreateTemp("", "verif-db3-*.db3")
		if err != nil {
			return nil
		}
		defer os.Remove(f.Name())
		f.Write(b)
		f.Close()
		db, err := sql.Open("sqlite3", f.Name())
		if err != nil {
			return err
		}
		defer db.Close()
		return ros.DB3ToMCAP(io.Discard, db, &mcap.WriterOptions{Chunked: true, ChunkSize: 1024, IncludeCRC: true}, []string{os.Getenv("VERIF_AMENT_ROOT")})
	}
	ExtraEntries["bag2mcap"] = func(b []byte) error {
		return ros.Bag2MCAP(io.Discard, bytes.NewReader(b), &mcap.WriterOptions{Chunked: true, ChunkSize: 1024, IncludeCRC: true})
	}
}
