package run

import (
	"bytes"
	"io"
	"runtime/debug"

	"github.com/foxglove/mcap/go/mcap"
	"github.com/foxglove/mcap/go/ros"
	"github.com/foxglove/mcap/go/ros/ros1msg"
)

func init() {
	ExtraEntries["ros1msg"] = func(b []byte) error {
		debug.SetMaxStack(64 << 20) // a runaway recursion ends the worker quickly (fatal error: stack overflow)
		_, err := ros1msg.ParseMessageDefinition("pkg", b)
		return err
	}
	ExtraEntries["bag2mcap"] = func(b []byte) error {
		return ros.Bag2MCAP(io.Discard, bytes.NewReader(b), &mcap.WriterOptions{Chunked: true, ChunkSize: 1024, IncludeCRC: true})
	}
}
