package run

import (
	"errors"
	"io"
	"math/rand"
)

// ErrInjected is the sentinel I/O error of the fault-injecting sources.
var ErrInjected = errors.New("verif: injected source I/O error")

// Source is a configurable io.ReadSeeker over a byte slice:
//   - fragmentation policy: "full", "one" (1 byte), "halving", "random", "eof" (last data returned together with io.EOF)
//   - FaultAt >= 0: any Read that would deliver byte FaultAt delivers the bytes before it and then fails with ErrInjected
type Source struct {
	B       []byte
	Pos     int64
	Policy  string
	R       *rand.Rand
	FaultAt int64
	Fired   bool
	half    int
	// FaultCall >= 0: the FaultCall-th call on the source (Read or Seek, counted from 0) fails with ErrInjected, and
	// every later call too when FaultPermanent is set; Calls counts the calls made
	FaultCall      int
	FaultPermanent bool
	Calls          int
	FiredOnSeek    bool
}

func (s *Source) callFault(seek bool) bool {
	i := s.Calls
	s.Calls++
	if s.FaultCall >= 0 && (i == s.FaultCall || (s.FaultPermanent && i > s.FaultCall)) {
		if !s.Fired {
			s.FiredOnSeek = seek
		}
		s.Fired = true
		return true
	}
	return false
}

func NewSource(b []byte, policy string, seed int64, faultAt int64) *Source {
	return &Source{B: b, Policy: policy, R: rand.New(rand.NewSource(seed)), FaultAt: faultAt, half: 1 << 16, FaultCall: -1}
}

func (s *Source) Read(p []byte) (int, error) {
	if len(p) == 0 {
		return 0, nil
	}
	if s.callFault(false) {
		return 0, ErrInjected
	}
	if s.Pos >= int64(len(s.B)) {
		if s.FaultAt == int64(len(s.B)) { // the source fails where end-of-file belongs
			s.Fired = true
			return 0, ErrInjected
		}
		return 0, io.EOF
	}
	n := len(p)
	switch s.Policy {
	case "one":
		n = 1
	case "halving":
		if s.half > 1 {
			s.half /= 2
		} else {
			s.half = 1 << 10
		}
		if n > s.half {
			n = s.half
		}
	case "random":
		k := 1 + s.R.Intn(17)
		if n > k {
			n = k
		}
	}
	rem := int64(len(s.B)) - s.Pos
	if int64(n) > rem {
		n = int(rem)
	}
	if s.FaultAt >= 0 && s.Pos <= s.FaultAt && s.FaultAt < s.Pos+int64(n) {
		n = int(s.FaultAt - s.Pos)
		if n == 0 {
			s.Fired = true
			return 0, ErrInjected
		}
	}
	copy(p, s.B[s.Pos:s.Pos+int64(n)])
	s.Pos += int64(n)
	if s.Policy == "eof" && s.Pos == int64(len(s.B)) {
		return n, io.EOF
	}
	return n, nil
}

func (s *Source) Seek(off int64, whence int) (int64, error) {
	if s.callFault(true) {
		return 0, ErrInjected
	}
	var np int64
	switch whence {
	case io.SeekStart:
		np = off
	case io.SeekCurrent:
		np = s.Pos + off
	case io.SeekEnd:
		np = int64(len(s.B)) + off
	}
	if np < 0 {
		return 0, errors.New("verif source: negative seek")
	}
	s.Pos = np
	return np, nil
}

// StreamOnly hides Seek so that the code under test sees a plain io.Reader.
type StreamOnly struct{ S *Source }

func (s StreamOnly) Read(p []byte) (int, error) { return s.S.Read(p) }
