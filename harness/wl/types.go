// Package wl defines concrete writer workloads, the abstraction α (interning,
// order embedding of timestamps) and the trace vocabulary shared with the TLA+
// trace specifications.
package wl

import (
	"encoding/json"
	"fmt"
	"math"
	"sort"
)

// Cfg is a writer configuration.
type Cfg struct {
	Chunked         bool   `json:"chunked"`
	ChunkSize       int64  `json:"chunkSize"`
	Compression     string `json:"comp"` // "", "zstd", "lz4", "xor" (custom)
	Level           int    `json:"level"`
	CRC             bool   `json:"crc"`
	SkipMsgIdx      bool   `json:"skipMsgIdx"`
	SkipStats       bool   `json:"skipStats"`
	SkipRepSchemas  bool   `json:"skipRepSchemas"`
	SkipRepChannels bool   `json:"skipRepChannels"`
	SkipAttIdx      bool   `json:"skipAttIdx"`
	SkipMdIdx       bool   `json:"skipMdIdx"`
	SkipChunkIdx    bool   `json:"skipChunkIdx"`
	SkipSumOffsets  bool   `json:"skipSumOffsets"`
	OverrideLibrary bool   `json:"overrideLibrary"`
	SkipMagic       bool   `json:"skipMagic"`
}

// KV is a map entry; maps are kept as lists so insertion order is controllable.
type KV struct {
	K []byte `json:"k"`
	V []byte `json:"v"`
}

// Call is one writer API call.
type Call struct {
	Op      string `json:"op"` // header schema channel message attachment metadata close | addschema addchannel chunk
	ID      uint16 `json:"id,omitempty"`
	Schema  uint16 `json:"schema,omitempty"`
	Ch      uint16 `json:"ch,omitempty"`
	Seq     uint32 `json:"seq,omitempty"`
	Log     uint64 `json:"log,omitempty"`
	Pub     uint64 `json:"pub,omitempty"`
	Create  uint64 `json:"create,omitempty"`
	Profile []byte `json:"profile,omitempty"`
	Library []byte `json:"library,omitempty"`
	Name    []byte `json:"name,omitempty"`
	Enc     []byte `json:"enc,omitempty"`
	Data    []byte `json:"data,omitempty"`
	Topic   []byte `json:"topic,omitempty"`
	Menc    []byte `json:"menc,omitempty"`
	Media   []byte `json:"media,omitempty"`
	MD      []KV   `json:"md,omitempty"`
	// attachment source behaviour (C14): "" exact, "short:<n>", "long:<n>", "fail:<n>"
	Src string `json:"src,omitempty"`
	// a call the writer must refuse with an error and without any effect: a message on a channel the writer was never
	// given, a channel whose schema it was never given
	Refused bool `json:"refused,omitempty"`
	// op "chunk" (WriteChunkWithIndexes with a chunk the caller assembled): the schema / channel / message records
	// placed in it, its compression ("", "zstd", "lz4") and how the message indexes are handed over:
	// "exact" (one per channel, order of first appearance), "rev" (exact, reversed order), "extra" (exact plus
	// empty index objects), "none" (nil)
	Inner []Call `json:"inner,omitempty"`
	CComp string `json:"ccomp,omitempty"`
	Idx   string `json:"idx,omitempty"`
}

// Workload is a configuration plus a call sequence.
type Workload struct {
	ID    string `json:"id"`
	Cfg   Cfg    `json:"cfg"`
	Calls []Call `json:"calls"`
}

// ---------------------------------------------------------------- abstraction

// Tm marks a uint64 timestamp inside an event; it is replaced by its rank when
// the trace is flushed.
type Tm uint64

// Blob marks a byte string inside an event; replaced by {id,len}.
type Blob []byte

// Seq marks a uint32 sequence number; replaced by an interned small integer.
type Seq uint32

// Ev is one trace event.
type Ev map[string]any

// Trace accumulates events of one run and abstracts them on Flush.
type Trace struct {
	events []Ev
	times  map[uint64]bool
}

func NewTrace() *Trace { return &Trace{times: map[uint64]bool{}} }

func (t *Trace) Add(e Ev) { t.events = append(t.events, e) }

// SetFirst sets a field of the first (Run) event.
func (t *Trace) SetFirst(k string, v any) {
	if len(t.events) > 0 {
		t.events[0][k] = v
	}
}

// Big is the largest integer handed to TLC; larger values saturate.
const Big = math.MaxInt32

// N saturates an unsigned value into TLC's integer range.
func N(v uint64) int {
	if v >= Big {
		return Big
	}
	return int(v)
}

type abstractor struct {
	ranks map[uint64]int
	blobs map[string]int
	seqs  map[uint32]int
}

func (a *abstractor) collect(v any, times map[uint64]bool) {
	switch x := v.(type) {
	case Tm:
		times[uint64(x)] = true
	case Ev:
		for _, y := range x {
			a.collect(y, times)
		}
	case map[string]any:
		for _, y := range x {
			a.collect(y, times)
		}
	case []any:
		for _, y := range x {
			a.collect(y, times)
		}
	case []Ev:
		for _, y := range x {
			a.collect(y, times)
		}
	}
}

func (a *abstractor) conv(v any) any {
	switch x := v.(type) {
	case Tm:
		return a.ranks[uint64(x)]
	case Blob:
		if len(x) == 0 {
			return map[string]any{"id": 0, "len": 0}
		}
		id, ok := a.blobs[string(x)]
		if !ok {
			id = len(a.blobs) + 1
			a.blobs[string(x)] = id
		}
		return map[string]any{"id": id, "len": N(uint64(len(x)))}
	case Seq:
		id, ok := a.seqs[uint32(x)]
		if !ok {
			id = len(a.seqs)
			a.seqs[uint32(x)] = id
		}
		return id
	case Ev:
		out := make(map[string]any, len(x))
		for k, y := range x {
			out[k] = a.conv(y)
		}
		return out
	case map[string]any:
		out := make(map[string]any, len(x))
		for k, y := range x {
			out[k] = a.conv(y)
		}
		return out
	case []any:
		out := make([]any, len(x))
		for i, y := range x {
			out[i] = a.conv(y)
		}
		return out
	case []Ev:
		out := make([]any, len(x))
		for i, y := range x {
			out[i] = a.conv(y)
		}
		return out
	case uint64:
		return N(x)
	case uint32:
		return N(uint64(x))
	case uint16:
		return int(x)
	case int64:
		if x < 0 {
			return -1
		}
		return N(uint64(x))
	default:
		return v
	}
}

// Flush abstracts all events and returns them as ndjson lines. The first
// event gets the field "tmax" (rank of 2^64-1) and "nranks".
func (t *Trace) Flush() ([][]byte, error) {
	a := &abstractor{ranks: map[uint64]int{}, blobs: map[string]int{}, seqs: map[uint32]int{}}
	times := map[uint64]bool{0: true, math.MaxUint64: true}
	for _, e := range t.events {
		a.collect(e, times)
	}
	vals := make([]uint64, 0, len(times))
	for v := range times {
		vals = append(vals, v)
	}
	sort.Slice(vals, func(i, j int) bool { return vals[i] < vals[j] })
	for i, v := range vals {
		a.ranks[v] = i
	}
	var out [][]byte
	for i, e := range t.events {
		m := a.conv(e).(map[string]any)
		if i == 0 {
			m["tmax"] = len(vals) - 1
		}
		b, err := json.Marshal(m)
		if err != nil {
			return nil, fmt.Errorf("marshal event: %w", err)
		}
		out = append(out, b)
	}
	return out, nil
}

// CfgEv renders a configuration for the trace.
func CfgEv(c Cfg) map[string]any {
	cs := c.ChunkSize
	if cs == 0 {
		cs = 1024 * 1024
	}
	return map[string]any{
		"chunked": c.Chunked, "chunkSize": N(uint64(cs)), "comp": c.Compression, "crc": c.CRC,
		"skipMsgIdx": c.SkipMsgIdx, "skipStats": c.SkipStats, "skipRepSchemas": c.SkipRepSchemas,
		"skipRepChannels": c.SkipRepChannels, "skipAttIdx": c.SkipAttIdx, "skipMdIdx": c.SkipMdIdx,
		"skipChunkIdx": c.SkipChunkIdx, "skipSumOffsets": c.SkipSumOffsets,
		"overrideLibrary": c.OverrideLibrary, "skipMagic": c.SkipMagic,
	}
}
