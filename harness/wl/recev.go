package wl

import (
	"fmt"

	"verifharness/refmcap"
)

func asciiOrHex(b []byte) string {
	for _, c := range b {
		if c < 0x20 || c > 0x7e || c == '"' || c == '\\' {
			return fmt.Sprintf("?%x", b)
		}
	}
	return string(b)
}

// MapEv renders a serialized map in file order.
func MapEv(m []refmcap.KV) []any {
	out := make([]any, 0, len(m))
	for _, kv := range m {
		out = append(out, map[string]any{"k": Blob(kv.K), "v": Blob(kv.V)})
	}
	return out
}

func chmapEv(m []refmcap.ChOff, valKey string) []any {
	out := make([]any, 0, len(m))
	for _, x := range m {
		out = append(out, map[string]any{"ch": int(x.Ch), valKey: x.Val})
	}
	return out
}

// RecEv abstracts one decoded record (without CRC verdicts, see FileEv).
func RecEv(r *refmcap.Rec) Ev {
	e := Ev{"k": refmcap.KindOf(r.Op), "pos": r.Pos, "len": r.Len, "pad": r.Pad, "ok": r.OK}
	if !r.OK {
		e["why"] = r.Why
		return e
	}
	switch r.Op {
	case refmcap.OpHeader:
		e["profile"] = Blob(r.Profile)
		e["library"] = Blob(r.Library)
	case refmcap.OpFooter:
		e["ss"] = r.SummaryStart
		e["sos"] = r.SummaryOffsetStart
		e["crcz"] = r.SummaryCRC == 0
	case refmcap.OpSchema:
		e["id"] = int(r.ID)
		e["name"] = Blob(r.Name)
		e["enc"] = Blob(r.Encoding)
		e["data"] = Blob(r.Data)
	case refmcap.OpChannel:
		e["id"] = int(r.ID)
		e["schema"] = int(r.SchemaID)
		e["topic"] = Blob(r.Topic)
		e["menc"] = Blob(r.MsgEncoding)
		e["md"] = MapEv(r.Map)
	case refmcap.OpMessage:
		e["ch"] = int(r.ChannelID)
		e["seq"] = Seq(r.Sequence)
		e["log"] = Tm(r.LogTime)
		e["pub"] = Tm(r.PubTime)
		e["data"] = Blob(r.Data)
	case refmcap.OpChunk:
		e["start"] = Tm(r.StartTime)
		e["end"] = Tm(r.EndTime)
		e["usize"] = r.USize
		e["crcz"] = r.CRC == 0
		e["comp"] = asciiOrHex(r.Compression)
		e["complen"] = len(r.Compression)
		e["csize"] = r.CSize
		e["decomp"] = r.DecompOK
		e["ulen"] = uint64(len(r.Uncompressed))
		e["crcok"] = r.DecompOK && refmcap.CRC(r.Uncompressed) == r.CRC
		e["itrail"] = r.InnerTrailing
		inner := make([]any, 0, len(r.Inner))
		for _, x := range r.Inner {
			inner = append(inner, RecEv(x))
		}
		e["inner"] = inner
	case refmcap.OpMessageIndex:
		e["ch"] = int(r.ChannelID)
		ents := make([]any, 0, len(r.Entries))
		for _, x := range r.Entries {
			ents = append(ents, map[string]any{"t": Tm(x.Time), "off": x.Offset})
		}
		e["entries"] = ents
	case refmcap.OpChunkIndex:
		e["start"] = Tm(r.StartTime)
		e["end"] = Tm(r.EndTime)
		e["cstart"] = r.ChunkStart
		e["clen"] = r.ChunkLen
		e["offs"] = chmapEv(r.Offsets, "off")
		e["milen"] = r.MsgIdxLen
		e["comp"] = asciiOrHex(r.Compression)
		e["complen"] = len(r.Compression)
		e["csize"] = r.CSize
		e["usize"] = r.USize
	case refmcap.OpAttachment:
		e["log"] = Tm(r.LogTime)
		e["create"] = Tm(r.CreateTime)
		e["name"] = Blob(r.Name)
		e["media"] = Blob(r.MediaType)
		e["dsize"] = r.DataSize
		e["data"] = Blob(r.Data)
		e["crcz"] = r.CRC == 0
		// spec: CRC32 of the preceding fields of the record = body minus the 4 CRC bytes minus padding
		end := uint64(len(r.Body)) - r.Pad - 4
		e["crcok"] = refmcap.CRC(r.Body[:end]) == r.CRC
		e["crcfrom"] = r.Pos + 9
		e["crcto"] = r.Pos + 9 + end
	case refmcap.OpAttachmentIndex:
		e["offset"] = r.Offset
		e["length"] = r.Length
		e["log"] = Tm(r.LogTime)
		e["create"] = Tm(r.CreateTime)
		e["dsize"] = r.DataSize
		e["name"] = Blob(r.Name)
		e["media"] = Blob(r.MediaType)
	case refmcap.OpStatistics:
		e["msgs"] = r.MsgCount
		e["schemas"] = int(r.SchemaCount)
		e["channels"] = r.ChannelCount
		e["atts"] = r.AttCount
		e["mds"] = r.MdCount
		e["chunks"] = r.ChunkCount
		e["start"] = Tm(r.StartTime)
		e["end"] = Tm(r.EndTime)
		e["per"] = chmapEv(r.PerChannel, "n")
	case refmcap.OpMetadata:
		e["name"] = Blob(r.Name)
		e["md"] = MapEv(r.Map)
	case refmcap.OpMetadataIndex:
		e["offset"] = r.Offset
		e["length"] = r.Length
		e["name"] = Blob(r.Name)
	case refmcap.OpSummaryOffset:
		e["op"] = refmcap.KindOf(r.GroupOp)
		e["gstart"] = r.GroupStart
		e["glen"] = r.GroupLen
	case refmcap.OpDataEnd:
		e["crcz"] = r.CRC == 0
	default:
		e["op"] = int(r.Op)
	}
	return e
}

// FileEv abstracts a whole decoded file, including the verdicts of the CRC
// fields computed over the ranges the harness chose per the specification; the
// chosen ranges are logged so that the TLA+ side re-derives and compares them.
func FileEv(f *refmcap.File) Ev {
	recs := make([]any, 0, len(f.Recs))
	var dataEnd, footer *refmcap.Rec
	var firstSummary *refmcap.Rec
	for _, r := range f.Recs {
		recs = append(recs, RecEv(r))
		if r.Op == refmcap.OpDataEnd && dataEnd == nil {
			dataEnd = r
		} else if dataEnd != nil && firstSummary == nil && r.Op != refmcap.OpFooter {
			firstSummary = r
		}
		if r.Op == refmcap.OpFooter {
			footer = r
		}
	}
	e := Ev{"ev": "File", "flen": uint64(len(f.Bytes)), "lead": f.Lead, "trail": f.Trail, "trailing": f.Trailing, "recs": recs}
	crc := map[string]any{}
	if dataEnd != nil && dataEnd.OK {
		crc["data"] = map[string]any{"from": 0, "to": dataEnd.Pos, "ok": refmcap.CRC(f.Bytes[:dataEnd.Pos]) == dataEnd.CRC}
	}
	if footer != nil && footer.OK {
		from := footer.Pos
		if firstSummary != nil {
			from = firstSummary.Pos
		}
		to := footer.Pos + 9 + 16
		if to <= uint64(len(f.Bytes)) && from <= to {
			crc["summary"] = map[string]any{"from": from, "to": to, "ok": refmcap.CRC(f.Bytes[from:to]) == footer.SummaryCRC}
		}
	}
	e["crc"] = crc
	return e
}
