package refmcap

import "encoding/binary"

// IntField locates one integer field (a length, size, count, offset, id or
// time) inside a byte stream.
type IntField struct {
	Rec   string // record kind
	Name  string // field name; length prefixes are "<field>.len"
	Off   uint64 // offset of the field in the stream it was walked in
	Width int    // 1, 2, 4 or 8 bytes
	Class string // len | size | offset | count | id | time | crc | opcode
	// RecEnd is the offset just past the record that holds the field; RecLenOff is the offset of that record's length field
	RecEnd    uint64
	RecLenOff uint64
	InChunk   int // 0 = top level, otherwise index (1-based) of the enclosing chunk record
}

type walker struct {
	b      []byte
	base   uint64
	off    int
	out    *[]IntField
	rec    string
	recEnd uint64
	lenOff uint64
	in     int
}

func (w *walker) f(name string, width int, class string) uint64 {
	if w.off+width > len(w.b) {
		w.off = len(w.b) + 1
		return 0
	}
	*w.out = append(*w.out, IntField{Rec: w.rec, Name: name, Off: w.base + uint64(w.off), Width: width, Class: class, RecEnd: w.recEnd, RecLenOff: w.lenOff, InChunk: w.in})
	var v uint64
	switch width {
	case 1:
		v = uint64(w.b[w.off])
	case 2:
		v = uint64(binary.LittleEndian.Uint16(w.b[w.off:]))
	case 4:
		v = uint64(binary.LittleEndian.Uint32(w.b[w.off:]))
	case 8:
		v = binary.LittleEndian.Uint64(w.b[w.off:])
	}
	w.off += width
	return v
}
func (w *walker) str(name string) {
	n := w.f(name+".len", 4, "len")
	w.off += int(n)
}
func (w *walker) kvmap(name string) {
	n := w.f(name+".len", 4, "len")
	end := w.off + int(n)
	i := 0
	for w.off < end && w.off < len(w.b) && i < 4 {
		w.str(name + ".key")
		w.str(name + ".value")
		i++
	}
	w.off = end
}

// Fields lists the integer fields of every record of b (a whole file). Inner
// records of uncompressed chunks are walked too (InChunk > 0, offsets are
// absolute file offsets).
func Fields(b []byte) []IntField {
	var out []IntField
	start := 0
	if len(b) >= 8 {
		start = 8
	}
	walkStream(b, start, len(b)-8, 0, &out)
	return out
}

func walkStream(b []byte, from, to int, inChunk int, out *[]IntField) {
	off := from
	nchunk := 0
	for off+9 <= to {
		op := b[off]
		n := binary.LittleEndian.Uint64(b[off+1:])
		if n > uint64(to-off-9) {
			return
		}
		end := off + 9 + int(n)
		w := &walker{b: b[:end], off: off, out: out, rec: KindOf(op), recEnd: uint64(end), lenOff: uint64(off + 1), in: inChunk}
		w.f("opcode", 1, "opcode")
		w.f("record_length", 8, "len")
		switch op {
		case OpHeader:
			w.str("profile")
			w.str("library")
		case OpFooter:
			w.f("summary_start", 8, "offset")
			w.f("summary_offset_start", 8, "offset")
			w.f("summary_crc", 4, "crc")
		case OpSchema:
			w.f("id", 2, "id")
			w.str("name")
			w.str("encoding")
			w.str("data")
		case OpChannel:
			w.f("id", 2, "id")
			w.f("schema_id", 2, "id")
			w.str("topic")
			w.str("message_encoding")
			w.kvmap("metadata")
		case OpMessage:
			w.f("channel_id", 2, "id")
			w.f("sequence", 4, "count")
			w.f("log_time", 8, "time")
			w.f("publish_time", 8, "time")
		case OpChunk:
			nchunk++
			w.f("message_start_time", 8, "time")
			w.f("message_end_time", 8, "time")
			w.f("uncompressed_size", 8, "size")
			w.f("uncompressed_crc", 4, "crc")
			cl := w.f("compression.len", 4, "len")
			w.off += int(cl)
			rl := w.f("records.len", 8, "len")
			if cl == 0 && inChunk == 0 && w.off+int(rl) <= end {
				walkStream(b, w.off, w.off+int(rl), nchunk, out)
			}
		case OpMessageIndex:
			w.f("channel_id", 2, "id")
			w.f("records.len", 4, "len")
			if w.off+16 <= end {
				w.f("records.time", 8, "time")
				w.f("records.offset", 8, "offset")
			}
		case OpChunkIndex:
			w.f("message_start_time", 8, "time")
			w.f("message_end_time", 8, "time")
			w.f("chunk_start_offset", 8, "offset")
			w.f("chunk_length", 8, "len")
			ml := w.f("message_index_offsets.len", 4, "len")
			if ml >= 10 {
				w.f("message_index_offsets.channel", 2, "id")
				w.f("message_index_offsets.offset", 8, "offset")
				w.off += int(ml) - 10
			}
			w.f("message_index_length", 8, "len")
			w.str("compression")
			w.f("compressed_size", 8, "size")
			w.f("uncompressed_size", 8, "size")
		case OpAttachment:
			w.f("log_time", 8, "time")
			w.f("create_time", 8, "time")
			w.str("name")
			w.str("media_type")
			dl := w.f("data.len", 8, "len")
			w.off += int(dl)
			w.f("crc", 4, "crc")
		case OpAttachmentIndex:
			w.f("offset", 8, "offset")
			w.f("length", 8, "len")
			w.f("log_time", 8, "time")
			w.f("create_time", 8, "time")
			w.f("data_size", 8, "size")
			w.str("name")
			w.str("media_type")
		case OpStatistics:
			w.f("message_count", 8, "count")
			w.f("schema_count", 2, "count")
			w.f("channel_count", 4, "count")
			w.f("attachment_count", 4, "count")
			w.f("metadata_count", 4, "count")
			w.f("chunk_count", 4, "count")
			w.f("message_start_time", 8, "time")
			w.f("message_end_time", 8, "time")
			w.f("channel_message_counts.len", 4, "len")
		case OpMetadata:
			w.str("name")
			w.kvmap("metadata")
		case OpMetadataIndex:
			w.f("offset", 8, "offset")
			w.f("length", 8, "len")
			w.str("name")
		case OpSummaryOffset:
			w.f("group_opcode", 1, "opcode")
			w.f("group_start", 8, "offset")
			w.f("group_length", 8, "len")
		case OpDataEnd:
			w.f("data_section_crc", 4, "crc")
		}
		off = end
	}
}
