// Package refmcap is an MCAP encoder and decoder written from
// website/docs/spec/index.md. It deliberately imports nothing from go/mcap: it
// is the independent observer whose output the TLA+ property layer judges.
package refmcap

import (
	"bytes"
	"encoding/binary"
	"fmt"
	"hash/crc32"
	"io"

	"github.com/klauspost/compress/zstd"
	"github.com/pierrec/lz4/v4"
)

var Magic = []byte{0x89, 'M', 'C', 'A', 'P', 0x30, '\r', '\n'}

const (
	OpHeader          = 0x01
	OpFooter          = 0x02
	OpSchema          = 0x03
	OpChannel         = 0x04
	OpMessage         = 0x05
	OpChunk           = 0x06
	OpMessageIndex    = 0x07
	OpChunkIndex      = 0x08
	OpAttachment      = 0x09
	OpAttachmentIndex = 0x0A
	OpStatistics      = 0x0B
	OpMetadata        = 0x0C
	OpMetadataIndex   = 0x0D
	OpSummaryOffset   = 0x0E
	OpDataEnd         = 0x0F
)

var KindNames = map[byte]string{
	OpHeader: "Header", OpFooter: "Footer", OpSchema: "Schema", OpChannel: "Channel",
	OpMessage: "Message", OpChunk: "Chunk", OpMessageIndex: "MessageIndex",
	OpChunkIndex: "ChunkIndex", OpAttachment: "Attachment", OpAttachmentIndex: "AttachmentIndex",
	OpStatistics: "Statistics", OpMetadata: "Metadata", OpMetadataIndex: "MetadataIndex",
	OpSummaryOffset: "SummaryOffset", OpDataEnd: "DataEnd",
}

func KindOf(op byte) string {
	if k, ok := KindNames[op]; ok {
		return k
	}
	return "Unknown"
}

// KV is one serialized map entry, in file order.
type KV struct{ K, V []byte }

// IdxEntry is one message index entry.
type IdxEntry struct{ Time, Offset uint64 }

// ChOff is one (channel id, value) pair of a Map<uint16,uint64>, in file order.
type ChOff struct {
	Ch  uint16
	Val uint64
}

// Rec is one decoded record. Only the fields of its kind are meaningful.
type Rec struct {
	Op   byte
	Pos  uint64 // position of the opcode byte in the enclosing stream (file, or uncompressed chunk)
	Len  uint64 // total length including the 9 byte prefix
	Pad  uint64 // trailing bytes after the last known field
	Body []byte // record content
	OK   bool   // body parsed completely according to its kind
	Why  string

	// Header
	Profile, Library []byte
	// Footer
	SummaryStart, SummaryOffsetStart uint64
	SummaryCRC                       uint32
	// Schema / Channel
	ID, SchemaID         uint16
	Name, Encoding, Data []byte
	Topic, MsgEncoding   []byte
	Map                  []KV
	MapBytes             uint32
	// Message
	ChannelID        uint16
	Sequence         uint32
	LogTime, PubTime uint64
	// Chunk
	StartTime, EndTime uint64
	USize              uint64
	CRC                uint32
	Compression        []byte
	CSize              uint64
	Records            []byte // compressed bytes as stored
	RecordsPos         uint64 // absolute position of the stored records bytes
	Uncompressed       []byte
	DecompOK           bool
	Inner              []*Rec
	InnerTrailing      uint64 // bytes left after the last complete inner record
	// MessageIndex
	Entries []IdxEntry
	// ChunkIndex
	ChunkStart, ChunkLen uint64
	Offsets              []ChOff
	MsgIdxLen            uint64
	// Attachment / AttachmentIndex
	CreateTime uint64
	MediaType  []byte
	DataSize   uint64
	Offset     uint64
	Length     uint64
	// Statistics
	MsgCount                                    uint64
	SchemaCount                                 uint16
	ChannelCount, AttCount, MdCount, ChunkCount uint32
	PerChannel                                  []ChOff
	// SummaryOffset
	GroupOp              byte
	GroupStart, GroupLen uint64
}

type cursor struct {
	b   []byte
	off int
	err error
}

func (c *cursor) need(n int) bool {
	if c.err != nil {
		return false
	}
	if n < 0 || len(c.b)-c.off < n {
		c.err = fmt.Errorf("short body: need %d at %d of %d", n, c.off, len(c.b))
		return false
	}
	return true
}
func (c *cursor) u8() byte {
	if !c.need(1) {
		return 0
	}
	v := c.b[c.off]
	c.off++
	return v
}
func (c *cursor) u16() uint16 {
	if !c.need(2) {
		return 0
	}
	v := binary.LittleEndian.Uint16(c.b[c.off:])
	c.off += 2
	return v
}
func (c *cursor) u32() uint32 {
	if !c.need(4) {
		return 0
	}
	v := binary.LittleEndian.Uint32(c.b[c.off:])
	c.off += 4
	return v
}
func (c *cursor) u64() uint64 {
	if !c.need(8) {
		return 0
	}
	v := binary.LittleEndian.Uint64(c.b[c.off:])
	c.off += 8
	return v
}
func (c *cursor) bytesN(n uint64) []byte {
	if n > uint64(len(c.b)) || !c.need(int(n)) {
		if c.err == nil {
			c.err = fmt.Errorf("short body: need %d", n)
		}
		return nil
	}
	v := c.b[c.off : c.off+int(n)]
	c.off += int(n)
	return v
}
func (c *cursor) str() []byte { return c.bytesN(uint64(c.u32())) }
func (c *cursor) kvmap() ([]KV, uint32) {
	n := c.u32()
	raw := c.bytesN(uint64(n))
	if c.err != nil {
		return nil, n
	}
	in := &cursor{b: raw}
	var out []KV
	for in.off < len(raw) && in.err == nil {
		k := in.str()
		v := in.str()
		if in.err == nil {
			out = append(out, KV{k, v})
		}
	}
	if in.err != nil {
		c.err = fmt.Errorf("map: %w", in.err)
	}
	return out, n
}
func (c *cursor) chmap() []ChOff {
	n := c.u32()
	raw := c.bytesN(uint64(n))
	if c.err != nil {
		return nil
	}
	if len(raw)%10 != 0 {
		c.err = fmt.Errorf("map<u16,u64> length %d not a multiple of 10", len(raw))
		return nil
	}
	var out []ChOff
	for i := 0; i < len(raw); i += 10 {
		out = append(out, ChOff{binary.LittleEndian.Uint16(raw[i:]), binary.LittleEndian.Uint64(raw[i+2:])})
	}
	return out
}

// ParseBody fills the kind-specific fields of r from r.Body. base is the
// absolute position of the body (used for chunk payload position).
func ParseBody(r *Rec, inChunk bool) {
	c := &cursor{b: r.Body}
	switch r.Op {
	case OpHeader:
		r.Profile = c.str()
		r.Library = c.str()
	case OpFooter:
		r.SummaryStart = c.u64()
		r.SummaryOffsetStart = c.u64()
		r.SummaryCRC = c.u32()
	case OpSchema:
		r.ID = c.u16()
		r.Name = c.str()
		r.Encoding = c.str()
		r.Data = c.str()
	case OpChannel:
		r.ID = c.u16()
		r.SchemaID = c.u16()
		r.Topic = c.str()
		r.MsgEncoding = c.str()
		r.Map, r.MapBytes = c.kvmap()
	case OpMessage:
		r.ChannelID = c.u16()
		r.Sequence = c.u32()
		r.LogTime = c.u64()
		r.PubTime = c.u64()
		if c.err == nil {
			r.Data = c.b[c.off:]
			c.off = len(c.b)
		}
	case OpChunk:
		r.StartTime = c.u64()
		r.EndTime = c.u64()
		r.USize = c.u64()
		r.CRC = c.u32()
		r.Compression = c.str()
		r.CSize = c.u64()
		if c.err == nil {
			r.RecordsPos = r.Pos + 9 + uint64(c.off)
		}
		r.Records = c.bytesN(r.CSize)
		if c.err == nil && !inChunk {
			decodeChunk(r)
		}
	case OpMessageIndex:
		r.ChannelID = c.u16()
		n := c.u32()
		raw := c.bytesN(uint64(n))
		if c.err == nil {
			if len(raw)%16 != 0 {
				c.err = fmt.Errorf("message index entries length %d", len(raw))
			}
			for i := 0; i+16 <= len(raw); i += 16 {
				r.Entries = append(r.Entries, IdxEntry{binary.LittleEndian.Uint64(raw[i:]), binary.LittleEndian.Uint64(raw[i+8:])})
			}
		}
	case OpChunkIndex:
		r.StartTime = c.u64()
		r.EndTime = c.u64()
		r.ChunkStart = c.u64()
		r.ChunkLen = c.u64()
		r.Offsets = c.chmap()
		r.MsgIdxLen = c.u64()
		r.Compression = c.str()
		r.CSize = c.u64()
		r.USize = c.u64()
	case OpAttachment:
		r.LogTime = c.u64()
		r.CreateTime = c.u64()
		r.Name = c.str()
		r.MediaType = c.str()
		r.DataSize = c.u64()
		r.Data = c.bytesN(r.DataSize)
		r.CRC = c.u32()
	case OpAttachmentIndex:
		r.Offset = c.u64()
		r.Length = c.u64()
		r.LogTime = c.u64()
		r.CreateTime = c.u64()
		r.DataSize = c.u64()
		r.Name = c.str()
		r.MediaType = c.str()
	case OpStatistics:
		r.MsgCount = c.u64()
		r.SchemaCount = c.u16()
		r.ChannelCount = c.u32()
		r.AttCount = c.u32()
		r.MdCount = c.u32()
		r.ChunkCount = c.u32()
		r.StartTime = c.u64()
		r.EndTime = c.u64()
		r.PerChannel = c.chmap()
	case OpMetadata:
		r.Name = c.str()
		r.Map, r.MapBytes = c.kvmap()
	case OpMetadataIndex:
		r.Offset = c.u64()
		r.Length = c.u64()
		r.Name = c.str()
	case OpSummaryOffset:
		r.GroupOp = c.u8()
		r.GroupStart = c.u64()
		r.GroupLen = c.u64()
	case OpDataEnd:
		r.CRC = c.u32()
	default:
		c.off = len(c.b)
	}
	if c.err != nil {
		r.OK = false
		r.Why = c.err.Error()
		return
	}
	r.OK = true
	r.Pad = uint64(len(c.b) - c.off)
}

// Decompress returns the uncompressed bytes of a chunk payload.
func Decompress(compression string, data []byte, usize uint64) ([]byte, error) {
	switch compression {
	case "":
		return data, nil
	case "zstd":
		d, err := zstd.NewReader(nil)
		if err != nil {
			return nil, err
		}
		defer d.Close()
		if usize > 1<<30 {
			return nil, fmt.Errorf("declared size too large")
		}
		return d.DecodeAll(data, make([]byte, 0, usize))
	case "lz4":
		rd := lz4.NewReader(bytes.NewReader(data))
		return io.ReadAll(io.LimitReader(rd, 1<<30))
	default:
		return nil, fmt.Errorf("unknown compression %q", compression)
	}
}

func decodeChunk(r *Rec) {
	u, err := Decompress(string(r.Compression), r.Records, r.USize)
	if err != nil {
		r.DecompOK = false
		r.Why = "decompress: " + err.Error()
		return
	}
	r.DecompOK = true
	r.Uncompressed = u
	r.Inner, r.InnerTrailing = DecodeStream(u, 0, true)
}

// DecodeStream splits b into records. It returns the complete records and the
// number of trailing bytes that do not form a complete record.
func DecodeStream(b []byte, base uint64, inChunk bool) ([]*Rec, uint64) {
	var out []*Rec
	off := 0
	for off < len(b) {
		if len(b)-off < 9 {
			return out, uint64(len(b) - off)
		}
		n := binary.LittleEndian.Uint64(b[off+1:])
		if n > uint64(len(b)-off-9) {
			return out, uint64(len(b) - off)
		}
		r := &Rec{Op: b[off], Pos: base + uint64(off), Len: 9 + n, Body: b[off+9 : off+9+int(n)]}
		ParseBody(r, inChunk)
		out = append(out, r)
		off += 9 + int(n)
	}
	return out, 0
}

// File is a decoded file.
type File struct {
	Bytes    []byte
	Lead     bool // leading magic present
	Trail    bool // trailing magic present
	Recs     []*Rec
	Trailing uint64 // undecodable bytes between the last record and the trailing magic / EOF
}

// DecodeFile decodes a whole file. The leading magic is optional (the Go writer
// can be told to skip it); everything else is reported, not enforced.
func DecodeFile(b []byte) *File {
	f := &File{Bytes: b}
	start := 0
	if len(b) >= 8 && bytes.Equal(b[:8], Magic) {
		f.Lead = true
		start = 8
	}
	end := len(b)
	if end-start >= 8 && bytes.Equal(b[end-8:], Magic) {
		f.Trail = true
		end -= 8
	}
	f.Recs, f.Trailing = DecodeStream(b[start:end], uint64(start), false)
	return f
}

func CRC(b []byte) uint32 { return crc32.ChecksumIEEE(b) }
