package refmcap

import (
	"bytes"
	"encoding/json"
	"fmt"
	"strconv"
)

// This file ports tests/conformance/scripts/generate-inputs.ts (and the parts
// of typescript/core McapRecordBuilder / ChunkBuilder it uses): it regenerates
// the binary form of a conformance vector from its JSON expectation. The
// result is pinned by the sha256 / size recorded in the git-LFS pointer files.

// CField is one ["name", value] pair of an expectation record.
type CField struct {
	Name  string
	Value json.RawMessage
}

func (f *CField) UnmarshalJSON(b []byte) error {
	var xs []json.RawMessage
	if err := json.Unmarshal(b, &xs); err != nil {
		return err
	}
	if len(xs) != 2 {
		return fmt.Errorf("field is not a pair")
	}
	if err := json.Unmarshal(xs[0], &f.Name); err != nil {
		return err
	}
	f.Value = xs[1]
	return nil
}

// CRecord is one record of an expectation.
type CRecord struct {
	Type   string   `json:"type"`
	Fields []CField `json:"fields"`
}

// CVector is a conformance expectation file.
type CVector struct {
	Records []CRecord `json:"records"`
	Meta    struct {
		Variant struct {
			Features []string `json:"features"`
		} `json:"variant"`
	} `json:"meta"`
}

func (r *CRecord) get(name string) json.RawMessage {
	for _, f := range r.Fields {
		if f.Name == name {
			return f.Value
		}
	}
	return nil
}
func (r *CRecord) Str(name string) []byte {
	var s string
	_ = json.Unmarshal(r.get(name), &s)
	return []byte(s)
}
func (r *CRecord) U64(name string) uint64 {
	var s string
	_ = json.Unmarshal(r.get(name), &s)
	v, _ := strconv.ParseUint(s, 10, 64)
	return v
}
func (r *CRecord) Bytes(name string) []byte {
	var xs []string
	_ = json.Unmarshal(r.get(name), &xs)
	out := make([]byte, 0, len(xs))
	for _, x := range xs {
		v, _ := strconv.ParseUint(x, 10, 8)
		out = append(out, byte(v))
	}
	return out
}

// Map returns a JSON object's entries in file order.
func (r *CRecord) Map(name string) []KV {
	raw := r.get(name)
	dec := json.NewDecoder(bytes.NewReader(raw))
	tok, err := dec.Token()
	if err != nil || tok != json.Delim('{') {
		return nil
	}
	var out []KV
	for dec.More() {
		k, _ := dec.Token()
		var v string
		_ = dec.Decode(&v)
		out = append(out, KV{[]byte(k.(string)), []byte(v)})
	}
	return out
}

func hasFeature(fs []string, f string) bool {
	for _, x := range fs {
		if x == f {
			return true
		}
	}
	return false
}

var padBytes = []byte{0x01, 0xff, 0xff}

// GenerateConformance rebuilds the .mcap of a vector the way generate-inputs.ts does.
func GenerateConformance(v *CVector) []byte {
	fs := v.Meta.Variant.Features
	padOn := hasFeature(fs, "pad")
	p := func(body []byte) []byte {
		if padOn {
			return append(append([]byte{}, body...), padBytes...)
		}
		return body
	}
	// the input records are the data-section records of the expectation (before DataEnd, without the header)
	var inputs []CRecord
	for _, r := range v.Records {
		if r.Type == "DataEnd" {
			break
		}
		if r.Type != "Header" {
			inputs = append(inputs, r)
		}
	}
	w := &W{}
	w.Magic()
	w.Rec(OpHeader, p(BodyHeader(nil, nil)))
	useChunks := hasFeature(fs, "ch")
	var chunk []byte // the chunk builder's record writer never pads
	type midx struct {
		ch      uint16
		entries []IdxEntry
	}
	var indices []*midx
	useMsgIdx := hasFeature(fs, "mx")
	findIdx := func(ch uint16) *midx {
		for _, m := range indices {
			if m.ch == ch {
				return m
			}
		}
		m := &midx{ch: ch}
		indices = append(indices, m)
		return m
	}
	var cStart, cEnd uint64
	chunkMsgs := 0
	type aidx struct {
		offset, length, log, create, dsize uint64
		name, media                        []byte
	}
	type mdidx struct {
		offset, length uint64
		name           []byte
	}
	var attIdx []aidx
	var mdIdx []mdidx
	var msgCount uint64
	var chanCount, schemaCount, attCount, mdCount uint32
	var tStart, tEnd uint64
	haveT := false
	var per []ChOff
	for i := range inputs {
		r := &inputs[i]
		switch r.Type {
		case "Schema":
			schemaCount++
			body := BodySchema(uint16(r.U64("id")), r.Str("name"), r.Str("encoding"), r.Bytes("data"))
			if useChunks {
				chunk = append(chunk, Frame(OpSchema, body)...)
			} else {
				w.Rec(OpSchema, p(body))
			}
		case "Channel":
			chanCount++
			id := uint16(r.U64("id"))
			body := BodyChannel(id, uint16(r.U64("schema_id")), r.Str("topic"), r.Str("message_encoding"), r.Map("metadata"))
			if useChunks {
				if useMsgIdx {
					findIdx(id)
				}
				chunk = append(chunk, Frame(OpChannel, body)...)
			} else {
				w.Rec(OpChannel, p(body))
			}
		case "Message":
			msgCount++
			ch := uint16(r.U64("channel_id"))
			found := false
			for k := range per {
				if per[k].Ch == ch {
					per[k].Val++
					found = true
				}
			}
			if !found {
				per = append(per, ChOff{ch, 1})
			}
			lt := r.U64("log_time")
			body := BodyMessage(ch, uint32(r.U64("sequence")), lt, r.U64("publish_time"), r.Bytes("data"))
			if useChunks {
				if chunkMsgs == 0 || lt < cStart {
					cStart = lt
				}
				if chunkMsgs == 0 || lt > cEnd {
					cEnd = lt
				}
				if useMsgIdx {
					m := findIdx(ch)
					m.entries = append(m.entries, IdxEntry{lt, uint64(len(chunk))})
				}
				chunkMsgs++
				chunk = append(chunk, Frame(OpMessage, body)...)
			} else {
				w.Rec(OpMessage, body)
			}
			if !haveT || lt < tStart {
				tStart = lt
			}
			if !haveT || lt > tEnd {
				tEnd = lt
			}
			haveT = true
		case "Attachment":
			attCount++
			data := r.Bytes("data")
			pos, l := w.Rec(OpAttachment, p(BodyAttachment(r.U64("log_time"), r.U64("create_time"), r.Str("name"), r.Str("media_type"), data, true)))
			if hasFeature(fs, "ax") {
				attIdx = append(attIdx, aidx{pos, l, r.U64("log_time"), r.U64("create_time"), uint64(len(data)), r.Str("name"), r.Str("media_type")})
			}
		case "Metadata":
			mdCount++
			pos, l := w.Rec(OpMetadata, p(BodyMetadata(r.Str("name"), r.Map("metadata"))))
			if hasFeature(fs, "mdx") {
				mdIdx = append(mdIdx, mdidx{pos, l, r.Str("name")})
			}
		}
	}
	type cidx struct {
		start, end, pos, length, milen, size uint64
		offs                                 []ChOff
	}
	var chunkIdx []cidx
	chunkCount := uint32(0)
	if useChunks {
		chunkCount = 1
		pos, l := w.Rec(OpChunk, BodyChunk(cStart, cEnd, uint64(len(chunk)), CRC(chunk), nil, chunk))
		var offs []ChOff
		var milen uint64
		for _, m := range indices {
			ipos, il := w.Rec(OpMessageIndex, p(BodyMessageIndex(m.ch, m.entries)))
			offs = append(offs, ChOff{m.ch, ipos})
			milen += il
		}
		if hasFeature(fs, "chx") {
			chunkIdx = append(chunkIdx, cidx{cStart, cEnd, pos, l, milen, uint64(len(chunk)), offs})
		}
	}
	w.Rec(OpDataEnd, BodyDataEnd(CRC(w.B)))
	summaryStart := w.Pos()
	type grp struct {
		op          byte
		start, size uint64
	}
	var groups []grp
	group := func(op byte, f func()) {
		s := w.Pos()
		f()
		if w.Pos() > s {
			groups = append(groups, grp{op, s, w.Pos() - s})
		}
	}
	group(OpSchema, func() {
		if hasFeature(fs, "rsh") {
			for i := range inputs {
				if r := &inputs[i]; r.Type == "Schema" {
					w.Rec(OpSchema, p(BodySchema(uint16(r.U64("id")), r.Str("name"), r.Str("encoding"), r.Bytes("data"))))
				}
			}
		}
	})
	group(OpChannel, func() {
		if hasFeature(fs, "rch") {
			for i := range inputs {
				if r := &inputs[i]; r.Type == "Channel" {
					w.Rec(OpChannel, p(BodyChannel(uint16(r.U64("id")), uint16(r.U64("schema_id")), r.Str("topic"), r.Str("message_encoding"), r.Map("metadata"))))
				}
			}
		}
	})
	group(OpStatistics, func() {
		if hasFeature(fs, "st") {
			w.Rec(OpStatistics, p(BodyStatistics(msgCount, uint16(schemaCount), chanCount, attCount, mdCount, chunkCount, tStart, tEnd, per)))
		}
	})
	group(OpMetadataIndex, func() {
		for _, m := range mdIdx {
			w.Rec(OpMetadataIndex, p(BodyMetadataIndex(m.offset, m.length, m.name)))
		}
	})
	group(OpAttachmentIndex, func() {
		for _, a := range attIdx {
			w.Rec(OpAttachmentIndex, p(BodyAttachmentIndex(a.offset, a.length, a.log, a.create, a.dsize, a.name, a.media)))
		}
	})
	group(OpChunkIndex, func() {
		for _, c := range chunkIdx {
			w.Rec(OpChunkIndex, p(BodyChunkIndex(c.start, c.end, c.pos, c.length, c.offs, c.milen, nil, c.size, c.size)))
		}
	})
	hasSummary := w.Pos() != summaryStart
	var sos uint64
	if hasFeature(fs, "sum") {
		sos = w.Pos()
		for _, g := range groups {
			w.Rec(OpSummaryOffset, p(BodySummaryOffset(g.op, g.start, g.size)))
		}
	}
	ss := uint64(0)
	if hasSummary {
		ss = summaryStart
	}
	pre := Frame(OpFooter, BodyFooter(ss, sos, 0))[:1+8+8+8]
	crc := CRC(append(append([]byte{}, w.B[summaryStart:]...), pre...))
	w.Rec(OpFooter, BodyFooter(ss, sos, crc))
	w.Magic()
	return w.B
}
