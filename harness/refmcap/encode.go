package refmcap

import (
	"bytes"
	"encoding/binary"
	"fmt"

	"github.com/klauspost/compress/zstd"
	"github.com/pierrec/lz4/v4"
)

// Enc is a little-endian body encoder.
type Enc struct{ B []byte }

func (e *Enc) U8(v byte) *Enc    { e.B = append(e.B, v); return e }
func (e *Enc) U16(v uint16) *Enc { e.B = binary.LittleEndian.AppendUint16(e.B, v); return e }
func (e *Enc) U32(v uint32) *Enc { e.B = binary.LittleEndian.AppendUint32(e.B, v); return e }
func (e *Enc) U64(v uint64) *Enc { e.B = binary.LittleEndian.AppendUint64(e.B, v); return e }
func (e *Enc) Raw(v []byte) *Enc { e.B = append(e.B, v...); return e }
func (e *Enc) Str(v []byte) *Enc { e.U32(uint32(len(v))); return e.Raw(v) }
func (e *Enc) KVMap(m []KV) *Enc {
	in := &Enc{}
	for _, kv := range m {
		in.Str(kv.K).Str(kv.V)
	}
	e.U32(uint32(len(in.B)))
	return e.Raw(in.B)
}
func (e *Enc) ChMap(m []ChOff) *Enc {
	e.U32(uint32(10 * len(m)))
	for _, x := range m {
		e.U16(x.Ch).U64(x.Val)
	}
	return e
}

func BodyHeader(profile, library []byte) []byte { return (&Enc{}).Str(profile).Str(library).B }
func BodyFooter(summaryStart, summaryOffsetStart uint64, crc uint32) []byte {
	return (&Enc{}).U64(summaryStart).U64(summaryOffsetStart).U32(crc).B
}
func BodySchema(id uint16, name, encoding, data []byte) []byte {
	return (&Enc{}).U16(id).Str(name).Str(encoding).Str(data).B
}
func BodyChannel(id, schema uint16, topic, menc []byte, md []KV) []byte {
	return (&Enc{}).U16(id).U16(schema).Str(topic).Str(menc).KVMap(md).B
}
func BodyMessage(ch uint16, seq uint32, log, pub uint64, data []byte) []byte {
	return (&Enc{}).U16(ch).U32(seq).U64(log).U64(pub).Raw(data).B
}
func BodyChunk(start, end, usize uint64, crc uint32, compression []byte, records []byte) []byte {
	return (&Enc{}).U64(start).U64(end).U64(usize).U32(crc).Str(compression).U64(uint64(len(records))).Raw(records).B
}
func BodyMessageIndex(ch uint16, entries []IdxEntry) []byte {
	e := (&Enc{}).U16(ch).U32(uint32(16 * len(entries)))
	for _, x := range entries {
		e.U64(x.Time).U64(x.Offset)
	}
	return e.B
}
func BodyChunkIndex(start, end, chunkStart, chunkLen uint64, offs []ChOff, msgIdxLen uint64, compression []byte, csize, usize uint64) []byte {
	return (&Enc{}).U64(start).U64(end).U64(chunkStart).U64(chunkLen).ChMap(offs).U64(msgIdxLen).Str(compression).U64(csize).U64(usize).B
}
func BodyAttachment(log, create uint64, name, media, data []byte, crcOn bool) []byte {
	e := (&Enc{}).U64(log).U64(create).Str(name).Str(media).U64(uint64(len(data))).Raw(data)
	var c uint32
	if crcOn {
		c = CRC(e.B)
	}
	return e.U32(c).B
}
func BodyAttachmentIndex(offset, length, log, create, dsize uint64, name, media []byte) []byte {
	return (&Enc{}).U64(offset).U64(length).U64(log).U64(create).U64(dsize).Str(name).Str(media).B
}
func BodyStatistics(msgs uint64, schemas uint16, channels, atts, mds, chunks uint32, start, end uint64, per []ChOff) []byte {
	return (&Enc{}).U64(msgs).U16(schemas).U32(channels).U32(atts).U32(mds).U32(chunks).U64(start).U64(end).ChMap(per).B
}
func BodyMetadata(name []byte, md []KV) []byte { return (&Enc{}).Str(name).KVMap(md).B }
func BodyMetadataIndex(offset, length uint64, name []byte) []byte {
	return (&Enc{}).U64(offset).U64(length).Str(name).B
}
func BodySummaryOffset(op byte, start, length uint64) []byte {
	return (&Enc{}).U8(op).U64(start).U64(length).B
}
func BodyDataEnd(crc uint32) []byte { return (&Enc{}).U32(crc).B }

// Frame wraps a body into <op><len><body>.
func Frame(op byte, body []byte) []byte {
	out := make([]byte, 0, 9+len(body))
	out = append(out, op)
	out = binary.LittleEndian.AppendUint64(out, uint64(len(body)))
	return append(out, body...)
}

// Compress compresses a chunk payload.
func Compress(compression string, data []byte) ([]byte, error) {
	switch compression {
	case "":
		return data, nil
	case "zstd":
		w, err := zstd.NewWriter(nil)
		if err != nil {
			return nil, err
		}
		defer w.Close()
		return w.EncodeAll(data, nil), nil
	case "lz4":
		var b bytes.Buffer
		w := lz4.NewWriter(&b)
		if _, err := w.Write(data); err != nil {
			return nil, err
		}
		if err := w.Close(); err != nil {
			return nil, err
		}
		return b.Bytes(), nil
	default:
		return nil, fmt.Errorf("unknown compression %q", compression)
	}
}

// W is a positional file writer.
type W struct{ B []byte }

func (w *W) Pos() uint64  { return uint64(len(w.B)) }
func (w *W) Raw(b []byte) { w.B = append(w.B, b...) }
func (w *W) Magic()       { w.Raw(Magic) }
func (w *W) Rec(op byte, body []byte) (pos, length uint64) {
	pos = w.Pos()
	w.Raw(Frame(op, body))
	return pos, w.Pos() - pos
}
