package refmcap

import "sort"

// BSchema, BChannel, BMsg, BChunk and BFile describe a file to build: the
// reference encoder lays it out exactly as described, including layouts the Go
// writer never produces (chunk time ranges that are wider than their content,
// nested or backwards in the file; arbitrary summary group order; unknown
// records; padding).
type BSchema struct {
	ID             uint16
	Name, Enc, Dat []byte
}
type BChannel struct {
	ID, Schema  uint16
	Topic, Menc []byte
	MD          []KV
}
type BMsg struct {
	Ch       uint16
	Seq      uint32
	Log, Pub uint64
	Data     []byte
}
type BChunk struct {
	Msgs        []BMsg
	Compression string
	// Defs: write the schema and channel records of the channels used, at the start of this chunk
	Defs bool
	// override of the time range stored in the chunk header and chunk index (nil: exact min/max, 0/0 when empty)
	Start, End *uint64
	// unknown records inserted before inner record i (key) inside the chunk
	UnknownAt map[int][]Unknown
}
type Unknown struct {
	Op   byte
	Body []byte
}
type BAttachment struct {
	Log, Create       uint64
	Name, Media, Data []byte
}
type BMetadata struct {
	Name []byte
	MD   []KV
}

// Item is one entry of the data section in file order.
type Item struct {
	Chunk   *BChunk
	Msg     *BMsg // message outside chunks
	Schema  *BSchema
	Channel *BChannel
	Att     *BAttachment
	Md      *BMetadata
	Unknown *Unknown
}

type BFile struct {
	Profile, Library []byte
	Schemas          []BSchema
	Channels         []BChannel
	Items            []Item
	// summary
	SummaryOrder   []string // kinds in order: "Schema","Channel","Statistics","ChunkIndex","AttachmentIndex","MetadataIndex"; absent = omitted
	MessageIndex   bool
	SummaryOffsets bool
	CRC            bool
	Pad            int                  // trailing pad bytes on every extensible record
	SummaryUnknown map[string][]Unknown // unknown records inserted before the named summary group ("" = at the end of the summary)
	// StatsNoPerChannel: the statistics record carries an empty channel_message_counts map, which the specification
	// defines as "this statistic is not available" (the other statistics are exact)
	StatsNoPerChannel bool
	// Within: order of the records inside every summary group: "" / "asc" as in the data section, "rev" reversed,
	// "rot" rotated by one (the specification does not prescribe any)
	Within string
	// DefsUpFront: write all schemas and channels at the start of the data section (outside chunks)
	DefsUpFront bool
}

type builtChunk struct {
	pos, length  uint64
	start, end   uint64
	csize, usize uint64
	compression  string
	offs         []ChOff
	msgIdxLen    uint64
}

// MsgLoc locates a message in the built file.
type MsgLoc struct {
	Mid    int // 1-based index in file order
	Chunk  int // 1-based index of the chunk among chunks, 0 = outside chunks
	Pos    int // 1-based index among the messages of that chunk (or of the top level)
	Msg    BMsg
	Offset uint64 // offset in the uncompressed chunk
}

// Built is the result of Build.
type Built struct {
	Bytes  []byte
	Msgs   []MsgLoc
	Chunks []struct{ Start, End, Pos uint64 }
}

func pad(body []byte, n int) []byte {
	if n <= 0 {
		return body
	}
	out := append([]byte{}, body...)
	for i := 0; i < n; i++ {
		out = append(out, byte(0xA0+i%16))
	}
	return out
}

// Build encodes f.
func Build(f *BFile) (*Built, error) {
	w := &W{}
	res := &Built{}
	w.Magic()
	w.Rec(OpHeader, pad(BodyHeader(f.Profile, f.Library), f.Pad))
	schemaByID := map[uint16]BSchema{}
	for _, s := range f.Schemas {
		schemaByID[s.ID] = s
	}
	chanByID := map[uint16]BChannel{}
	for _, c := range f.Channels {
		chanByID[c.ID] = c
	}
	schemaBody := func(s BSchema) []byte { return pad(BodySchema(s.ID, s.Name, s.Enc, s.Dat), f.Pad) }
	chanBody := func(c BChannel) []byte { return pad(BodyChannel(c.ID, c.Schema, c.Topic, c.Menc, c.MD), f.Pad) }
	if f.DefsUpFront {
		for _, s := range f.Schemas {
			w.Rec(OpSchema, schemaBody(s))
		}
		for _, c := range f.Channels {
			w.Rec(OpChannel, chanBody(c))
		}
	}
	var chunks []builtChunk
	type attLoc struct {
		pos, length uint64
		a           BAttachment
	}
	type mdLoc struct {
		pos, length uint64
		m           BMetadata
	}
	var atts []attLoc
	var mds []mdLoc
	var nmsgs uint64
	per := map[uint16]uint64{}
	var minT, maxT uint64
	seen := false
	note := func(m BMsg) {
		nmsgs++
		per[m.Ch]++
		if !seen || m.Log < minT {
			minT = m.Log
		}
		if !seen || m.Log > maxT {
			maxT = m.Log
		}
		seen = true
	}
	topPos := 0
	for _, it := range f.Items {
		switch {
		case it.Schema != nil:
			w.Rec(OpSchema, schemaBody(*it.Schema))
		case it.Channel != nil:
			w.Rec(OpChannel, chanBody(*it.Channel))
		case it.Unknown != nil:
			w.Rec(it.Unknown.Op, it.Unknown.Body)
		case it.Msg != nil:
			w.Rec(OpMessage, BodyMessage(it.Msg.Ch, it.Msg.Seq, it.Msg.Log, it.Msg.Pub, it.Msg.Data))
			topPos++
			res.Msgs = append(res.Msgs, MsgLoc{Mid: len(res.Msgs) + 1, Chunk: 0, Pos: topPos, Msg: *it.Msg})
			note(*it.Msg)
		case it.Att != nil:
			pos, l := w.Rec(OpAttachment, pad(BodyAttachment(it.Att.Log, it.Att.Create, it.Att.Name, it.Att.Media, it.Att.Data, true), f.Pad))
			atts = append(atts, attLoc{pos, l, *it.Att})
		case it.Md != nil:
			pos, l := w.Rec(OpMetadata, pad(BodyMetadata(it.Md.Name, it.Md.MD), f.Pad))
			mds = append(mds, mdLoc{pos, l, *it.Md})
		case it.Chunk != nil:
			c := it.Chunk
			var u []byte
			if c.Defs {
				usedS := map[uint16]bool{}
				usedC := map[uint16]bool{}
				for _, m := range c.Msgs {
					if !usedC[m.Ch] {
						usedC[m.Ch] = true
						ch := chanByID[m.Ch]
						if ch.Schema != 0 && !usedS[ch.Schema] {
							usedS[ch.Schema] = true
							u = append(u, Frame(OpSchema, schemaBody(schemaByID[ch.Schema]))...)
						}
						u = append(u, Frame(OpChannel, chanBody(ch))...)
					}
				}
			}
			idx := map[uint16][]IdxEntry{}
			var order []uint16
			var cmin, cmax uint64
			for i, m := range c.Msgs {
				for _, un := range c.UnknownAt[i] {
					u = append(u, Frame(un.Op, un.Body)...)
				}
				off := uint64(len(u))
				u = append(u, Frame(OpMessage, BodyMessage(m.Ch, m.Seq, m.Log, m.Pub, m.Data))...)
				if _, ok := idx[m.Ch]; !ok {
					order = append(order, m.Ch)
				}
				idx[m.Ch] = append(idx[m.Ch], IdxEntry{m.Log, off})
				if i == 0 || m.Log < cmin {
					cmin = m.Log
				}
				if i == 0 || m.Log > cmax {
					cmax = m.Log
				}
				res.Msgs = append(res.Msgs, MsgLoc{Mid: len(res.Msgs) + 1, Chunk: len(chunks) + 1, Pos: i + 1, Msg: m, Offset: off})
				note(m)
			}
			for _, un := range c.UnknownAt[len(c.Msgs)] {
				u = append(u, Frame(un.Op, un.Body)...)
			}
			if c.Start != nil {
				cmin = *c.Start
			}
			if c.End != nil {
				cmax = *c.End
			}
			comp, err := Compress(c.Compression, u)
			if err != nil {
				return nil, err
			}
			var crc uint32
			if f.CRC {
				crc = CRC(u)
			}
			pos, l := w.Rec(OpChunk, BodyChunk(cmin, cmax, uint64(len(u)), crc, []byte(c.Compression), comp))
			bc := builtChunk{pos: pos, length: l, start: cmin, end: cmax, csize: uint64(len(comp)), usize: uint64(len(u)), compression: c.Compression}
			if f.MessageIndex {
				sort.Slice(order, func(i, j int) bool { return order[i] < order[j] })
				for _, ch := range order {
					p, ll := w.Rec(OpMessageIndex, pad(BodyMessageIndex(ch, idx[ch]), f.Pad))
					bc.offs = append(bc.offs, ChOff{ch, p})
					bc.msgIdxLen += ll
				}
			}
			chunks = append(chunks, bc)
			res.Chunks = append(res.Chunks, struct{ Start, End, Pos uint64 }{cmin, cmax, pos})
		}
	}
	var dcrc uint32
	if f.CRC {
		dcrc = CRC(w.B)
	}
	w.Rec(OpDataEnd, BodyDataEnd(dcrc))
	sumStart := w.Pos()
	type group struct {
		op          byte
		start, size uint64
	}
	var groups []group
	emitUnknown := func(key string) {
		for _, un := range f.SummaryUnknown[key] {
			w.Rec(un.Op, un.Body)
		}
	}
	ord := func(n int) []int {
		out := make([]int, n)
		for i := range out {
			switch f.Within {
			case "rev":
				out[i] = n - 1 - i
			case "rot":
				out[i] = (i + 1) % n
			default:
				out[i] = i
			}
		}
		return out
	}
	for _, g := range f.SummaryOrder {
		emitUnknown(g)
		start := w.Pos()
		var op byte
		switch g {
		case "Schema":
			op = OpSchema
			for _, i := range ord(len(f.Schemas)) {
				w.Rec(op, schemaBody(f.Schemas[i]))
			}
		case "Channel":
			op = OpChannel
			for _, i := range ord(len(f.Channels)) {
				w.Rec(op, chanBody(f.Channels[i]))
			}
		case "Statistics":
			op = OpStatistics
			var pc []ChOff
			for _, c := range f.Channels {
				if n, ok := per[c.ID]; ok {
					pc = append(pc, ChOff{c.ID, n})
				}
			}
			if f.StatsNoPerChannel {
				pc = nil
			}
			w.Rec(op, pad(BodyStatistics(nmsgs, uint16(len(f.Schemas)), uint32(len(f.Channels)), uint32(len(atts)), uint32(len(mds)), uint32(len(chunks)), minT, maxT, pc), f.Pad))
		case "ChunkIndex":
			op = OpChunkIndex
			for _, i := range ord(len(chunks)) {
				c := chunks[i]
				w.Rec(op, pad(BodyChunkIndex(c.start, c.end, c.pos, c.length, c.offs, c.msgIdxLen, []byte(c.compression), c.csize, c.usize), f.Pad))
			}
		case "AttachmentIndex":
			op = OpAttachmentIndex
			for _, i := range ord(len(atts)) {
				a := atts[i]
				w.Rec(op, pad(BodyAttachmentIndex(a.pos, a.length, a.a.Log, a.a.Create, uint64(len(a.a.Data)), a.a.Name, a.a.Media), f.Pad))
			}
		case "MetadataIndex":
			op = OpMetadataIndex
			for _, i := range ord(len(mds)) {
				m := mds[i]
				w.Rec(op, pad(BodyMetadataIndex(m.pos, m.length, m.m.Name), f.Pad))
			}
		}
		if w.Pos() > start {
			groups = append(groups, group{op, start, w.Pos() - start})
		}
	}
	emitUnknown("")
	sumEnd := w.Pos()
	var ss, sos uint64
	if sumEnd > sumStart {
		ss = sumStart
	}
	if f.SummaryOffsets && len(groups) > 0 {
		sos = w.Pos()
		for _, g := range groups {
			w.Rec(OpSummaryOffset, pad(BodySummaryOffset(g.op, g.start, g.size), f.Pad))
		}
	}
	footerPos := w.Pos()
	body := BodyFooter(ss, sos, 0)
	frame := Frame(OpFooter, body)
	if f.CRC {
		crcFrom := footerPos
		if ss != 0 {
			crcFrom = ss
		} else if sos != 0 {
			crcFrom = sos
		}
		h := append(append([]byte{}, w.B[crcFrom:]...), frame[:9+16]...)
		frame = Frame(OpFooter, BodyFooter(ss, sos, CRC(h)))
	}
	w.Raw(frame)
	w.Magic()
	res.Bytes = w.B
	return res, nil
}
