package gen

import (
	"bytes"
	"fmt"
	"math"
	"math/rand"
	"sort"

	"verifharness/wl"
)

// AbsBlob is an abstract byte string of the TLA+ models: equal ids <=> equal bytes.
type AbsBlob struct {
	ID  int `json:"id"`
	Len int `json:"len"`
}

// AbsKV is an abstract map entry.
type AbsKV struct {
	K AbsBlob `json:"k"`
	V AbsBlob `json:"v"`
}

// AbsCall is one call of a TLC-generated behaviour of WriterMC.
type AbsCall struct {
	K      string  `json:"k"`
	ID     int     `json:"id"`
	Schema int     `json:"schema"`
	Ch     int     `json:"ch"`
	Seq    int     `json:"seq"`
	Log    int     `json:"log"`
	Pub    int     `json:"pub"`
	Create int     `json:"create"`
	Name   AbsBlob `json:"name"`
	Enc    AbsBlob `json:"enc"`
	Data   AbsBlob `json:"data"`
	Topic  AbsBlob `json:"topic"`
	Menc   AbsBlob `json:"menc"`
	Media  AbsBlob `json:"media"`
	MD     []AbsKV `json:"md"`
	// assembled chunks (k = "Chunk")
	Items []AbsCall `json:"items"`
	Idx   string    `json:"idx"`
}

// AbsBehaviour is one exported behaviour.
type AbsBehaviour struct {
	Cfg   wl.Cfg    `json:"cfg"`
	Tmax  int       `json:"tmax"`
	Calls []AbsCall `json:"calls"`
}

// Concretise is γ: it maps an abstract behaviour to a concrete workload. Time
// ranks become increasing uint64 values with rank 0 -> 0 and rank tmax ->
// 2^64-1; blobs become len bytes determined by the id; small ids map to the
// representative ids {0,1,65535} / {1,65535}.
func Concretise(id string, b AbsBehaviour, seed int64) wl.Workload {
	r := rand.New(rand.NewSource(seed))
	times := make([]uint64, b.Tmax+1)
	mid := make([]uint64, 0, b.Tmax)
	for i := 1; i < b.Tmax; i++ {
		switch r.Intn(3) {
		case 0:
			mid = append(mid, uint64(1+r.Intn(1000)))
		case 1:
			mid = append(mid, r.Uint64()>>1|1)
		default:
			mid = append(mid, math.MaxUint64-1-uint64(r.Intn(1000)))
		}
	}
	sort.Slice(mid, func(i, j int) bool { return mid[i] < mid[j] })
	for i := 1; i < len(mid); i++ { // strictly increasing
		if mid[i] <= mid[i-1] {
			mid[i] = mid[i-1] + 1
		}
	}
	for i := 1; i < b.Tmax; i++ {
		times[i] = mid[i-1]
	}
	if b.Tmax > 0 {
		times[b.Tmax] = math.MaxUint64
	}
	blob := func(a AbsBlob) []byte {
		if a.Len == 0 {
			return nil
		}
		return bytes.Repeat([]byte{byte(a.ID)}, a.Len)
	}
	// representatives of the small abstract ids, chosen per behaviour: low ids, the top of the range approached from below
	// (id-indexed tables grow towards 65535), and a climbing series
	reps := [][3]uint16{{0, 1, 65535}, {0, 65534, 65535}, {0, 300, 40000}, {0, 64512, 65535}}[r.Intn(4)]
	chID := map[int]uint16{0: reps[0], 1: reps[1], 2: reps[2]}
	scID := map[int]uint16{0: 0, 1: reps[1], 2: reps[2]}
	md := func(m []AbsKV) []wl.KV {
		var out []wl.KV
		for _, kv := range m {
			out = append(out, wl.KV{K: blob(kv.K), V: blob(kv.V)})
		}
		return out
	}
	w := wl.Workload{ID: id, Cfg: b.Cfg}
	// the header the model writes: profile B(1,1); the library is chosen so that the expected library has 13 bytes
	w.Calls = append(w.Calls, wl.Call{Op: "header", Profile: blob(AbsBlob{1, 1}), Library: nil})
	if b.Cfg.OverrideLibrary {
		w.Calls[0].Library = []byte(fmt.Sprintf("%-13s", "custom-lib"))
	}
	var conv func(c AbsCall) (wl.Call, bool)
	conv = func(c AbsCall) (wl.Call, bool) {
		switch c.K {
		case "Schema", "AddSchema":
			op := map[string]string{"Schema": "schema", "AddSchema": "addschema"}[c.K]
			return wl.Call{Op: op, ID: scID[c.ID], Name: blob(c.Name), Enc: blob(c.Enc), Data: blob(c.Data)}, true
		case "Channel", "AddChannel":
			op := map[string]string{"Channel": "channel", "AddChannel": "addchannel"}[c.K]
			return wl.Call{Op: op, ID: chID[c.ID], Schema: scID[c.Schema], Topic: blob(c.Topic), Menc: blob(c.Menc), MD: md(c.MD)}, true
		case "Message":
			return wl.Call{Op: "message", Ch: chID[c.Ch], Seq: uint32(c.Seq), Log: times[c.Log], Pub: times[c.Pub], Data: blob(c.Data)}, true
		case "Chunk":
			out := wl.Call{Op: "chunk", Idx: c.Idx}
			for _, it := range c.Items {
				if x, ok := conv(it); ok {
					out.Inner = append(out.Inner, x)
				}
			}
			return out, true
		}
		return wl.Call{}, false
	}
	for _, c := range b.Calls {
		if c.K == "AddSchema" || c.K == "AddChannel" || c.K == "Chunk" {
			x, _ := conv(c)
			w.Calls = append(w.Calls, x)
			continue
		}
		switch c.K {
		case "Schema":
			w.Calls = append(w.Calls, wl.Call{Op: "schema", ID: scID[c.ID], Name: blob(c.Name), Enc: blob(c.Enc), Data: blob(c.Data)})
		case "Channel":
			w.Calls = append(w.Calls, wl.Call{Op: "channel", ID: chID[c.ID], Schema: scID[c.Schema], Topic: blob(c.Topic), Menc: blob(c.Menc), MD: md(c.MD)})
		case "Message":
			w.Calls = append(w.Calls, wl.Call{Op: "message", Ch: chID[c.Ch], Seq: uint32(c.Seq), Log: times[c.Log], Pub: times[c.Pub], Data: blob(c.Data)})
		case "Attachment":
			w.Calls = append(w.Calls, wl.Call{Op: "attachment", Log: times[c.Log], Create: times[c.Create], Name: blob(c.Name), Media: blob(c.Media), Data: blob(c.Data)})
		case "Metadata":
			w.Calls = append(w.Calls, wl.Call{Op: "metadata", Name: blob(c.Name), MD: md(c.MD)})
		}
	}
	w.Calls = append(w.Calls, wl.Call{Op: "close"})
	return w
}
