// Package gen produces seeded random workloads and configurations (γ: the
// concrete representatives of the abstract domains of the TLA+ workload model).
package gen

import (
	"fmt"
	"math"
	"math/rand"

	"verifharness/wl"
)

var TimePool = []uint64{0, 1, 2, 1000, 1 << 31, 1 << 32, 1<<63 - 1, 1 << 63, math.MaxUint64 - 1, math.MaxUint64}

var StrPool = [][]byte{
	[]byte(""), []byte("a"), []byte("foo/bar"), []byte("/tf"), []byte("ros1msg"), []byte("json"),
	[]byte("h\xc3\xa9llo w\xc3\xb6rld \xe2\x9c\x93"), []byte("\xf0\x9f\x9a\x80\xf0\x9f\x9a\x80"),
	[]byte("\xff\xfe\x00bad utf8"), []byte("key with spaces"), []byte("zzzz"),
}

// G is a seeded generator.
type G struct {
	Refusals bool // Calls mixes in calls the writer must refuse (unknown channel / unknown schema)
	R *rand.Rand
	// UTF8Only restricts strings to valid UTF-8 (C16).
	UTF8Only bool
	// NoHuge disables the 64 KiB strings / multi-chunk payloads (small files for exhaustive fault enumeration).
	NoHuge bool
}

func New(seed int64) *G { return &G{R: rand.New(rand.NewSource(seed))} }

func (g *G) Str() []byte {
	for {
		if !g.NoHuge && g.R.Intn(200) == 0 {
			b := make([]byte, 65536)
			for i := range b {
				b[i] = byte('a' + g.R.Intn(26))
			}
			return b
		}
		s := StrPool[g.R.Intn(len(StrPool))]
		if g.UTF8Only && len(s) > 0 && s[0] == 0xff {
			continue
		}
		if g.R.Intn(4) == 0 {
			return append(append([]byte{}, s...), byte('0'+g.R.Intn(10)))
		}
		return s
	}
}

func (g *G) Time() uint64 {
	switch g.R.Intn(10) {
	case 0, 1, 2, 3, 4:
		return TimePool[g.R.Intn(len(TimePool))]
	case 5, 6:
		return uint64(g.R.Intn(8))
	case 7:
		return math.MaxUint64 - uint64(g.R.Intn(4))
	default:
		return g.R.Uint64()
	}
}

func (g *G) Payload(chunkSize int64) []byte {
	var n int
	switch g.R.Intn(8) {
	case 0:
		n = 0
	case 1, 2, 3:
		n = 1 + g.R.Intn(16)
	case 4, 5:
		n = 20 + g.R.Intn(100)
	case 6:
		if chunkSize > 0 && chunkSize < 5000 {
			n = int(chunkSize) + g.R.Intn(8) - 4
			if n < 0 {
				n = 0
			}
		} else {
			n = 300
		}
	default:
		if g.NoHuge {
			n = 40
		} else if chunkSize > 0 && chunkSize < 5000 {
			n = int(chunkSize)*3 + g.R.Intn(10)
		} else {
			n = 3000
		}
	}
	b := make([]byte, n)
	g.R.Read(b)
	return b
}

func (g *G) Map() []wl.KV {
	n := 0
	switch g.R.Intn(6) {
	case 0, 1:
		n = 0
	case 2, 3:
		n = 1
	case 4:
		n = 2 + g.R.Intn(3)
	default:
		n = 8 + g.R.Intn(8)
	}
	seen := map[string]bool{}
	var out []wl.KV
	for len(out) < n {
		k := g.Str()
		if len(k) > 100 {
			continue
		}
		k = append(append([]byte{}, k...), []byte(fmt.Sprintf("%d", len(out)))...)
		if seen[string(k)] {
			continue
		}
		seen[string(k)] = true
		v := g.Str()
		if len(v) > 100 {
			v = v[:100]
		}
		out = append(out, wl.KV{K: k, V: v})
	}
	return out
}

var ChunkSizes = []int64{1, 40, 120, 400, 1 << 20}
var Compressions = []string{"", "zstd", "lz4", "xor"}

// Cfg draws a random configuration.
func (g *G) Cfg() wl.Cfg {
	b := func() bool { return g.R.Intn(2) == 0 }
	rare := func() bool { return g.R.Intn(4) == 0 }
	c := wl.Cfg{
		Chunked: g.R.Intn(4) != 0, ChunkSize: ChunkSizes[g.R.Intn(len(ChunkSizes))],
		Compression: Compressions[g.R.Intn(len(Compressions))], Level: g.R.Intn(4), CRC: b(),
		SkipMsgIdx: rare(), SkipStats: rare(), SkipRepSchemas: rare(), SkipRepChannels: rare(), SkipAttIdx: rare(),
		SkipMdIdx: rare(), SkipChunkIdx: rare(), SkipSumOffsets: rare(), OverrideLibrary: b(), SkipMagic: g.R.Intn(8) == 0,
	}
	return c
}

// FlagCfg sets the ten Skip*/Override flags from the bits of m.
func FlagCfg(base wl.Cfg, m int) wl.Cfg {
	c := base
	c.SkipMsgIdx = m&1 != 0
	c.SkipStats = m&2 != 0
	c.SkipRepSchemas = m&4 != 0
	c.SkipRepChannels = m&8 != 0
	c.SkipAttIdx = m&16 != 0
	c.SkipMdIdx = m&32 != 0
	c.SkipChunkIdx = m&64 != 0
	c.SkipSumOffsets = m&128 != 0
	c.OverrideLibrary = m&256 != 0
	c.SkipMagic = m&512 != 0
	return c
}

var SchemaIDs = []uint16{1, 2, 65535, 7, 65534} // the top of the id range from both sides (tables indexed by id grow towards it)
var ChannelIDs = []uint16{0, 1, 65535, 9, 300, 65534, 40000}

// Calls draws a legal call sequence of about n data calls.
func (g *G) Calls(n int, chunkSize int64) []wl.Call {
	calls := []wl.Call{{Op: "header", Profile: g.Str(), Library: g.Str()}}
	if g.R.Intn(3) == 0 {
		calls[0].Library = nil
	}
	schemas := map[uint16]wl.Call{}
	channels := map[uint16]wl.Call{}
	var schemaList, channelList []uint16
	seq := uint32(0)
	tbase := g.Time()
	mode := g.R.Intn(4) // 0 ascending, 1 descending, 2 random pool, 3 constant
	for i := 0; i < n; i++ {
		r := g.R.Intn(20)
		switch {
		case r < 2 || (len(schemas) == 0 && r < 4):
			id := SchemaIDs[g.R.Intn(len(SchemaIDs))]
			if old, ok := schemas[id]; ok {
				calls = append(calls, old) // identical re-write
				continue
			}
			c := wl.Call{Op: "schema", ID: id, Name: g.Str(), Enc: g.Str(), Data: g.Payload(0)}
			schemas[id] = c
			schemaList = append(schemaList, id)
			calls = append(calls, c)
		case r < 5 || len(channels) == 0:
			id := ChannelIDs[g.R.Intn(len(ChannelIDs))]
			if old, ok := channels[id]; ok {
				calls = append(calls, old)
				continue
			}
			var sid uint16
			if len(schemaList) > 0 && g.R.Intn(4) != 0 {
				sid = schemaList[g.R.Intn(len(schemaList))]
			}
			topic := g.Str()
			if len(channelList) > 0 && g.R.Intn(3) == 0 {
				topic = channels[channelList[g.R.Intn(len(channelList))]].Topic // topic shared by several channels
			}
			c := wl.Call{Op: "channel", ID: id, Schema: sid, Topic: topic, Menc: g.Str(), MD: g.Map()}
			channels[id] = c
			channelList = append(channelList, id)
			calls = append(calls, c)
		case r < 16:
			if g.Refusals && g.R.Intn(9) == 0 {
				// a call the writer must refuse, leaving no trace: a message on a channel it was never given (the id may be
				// given later), or a channel whose schema it was never given
				if g.R.Intn(3) != 0 {
					id := ChannelIDs[g.R.Intn(len(ChannelIDs))]
					if _, ok := channels[id]; !ok {
						calls = append(calls, wl.Call{Op: "message", Ch: id, Seq: g.R.Uint32(), Log: g.Time(), Pub: g.Time(), Data: g.Payload(chunkSize), Refused: true})
					}
				} else {
					id, sid := ChannelIDs[g.R.Intn(len(ChannelIDs))], SchemaIDs[g.R.Intn(len(SchemaIDs))]
					_, okc := channels[id]
					_, oks := schemas[sid]
					if !okc && !oks {
						calls = append(calls, wl.Call{Op: "channel", ID: id, Schema: sid, Topic: g.Str(), Menc: g.Str(), MD: g.Map(), Refused: true})
					}
				}
				continue
			}
			ch := channelList[g.R.Intn(len(channelList))]
			var t uint64
			switch mode {
			case 0:
				tbase += uint64(g.R.Intn(3))
				t = tbase
			case 1:
				tbase -= uint64(g.R.Intn(3))
				t = tbase
			case 2:
				t = g.Time()
			default:
				t = tbase
			}
			if g.R.Intn(10) == 0 {
				t = g.Time()
			}
			seq++
			s := seq
			if g.R.Intn(8) == 0 {
				s = g.R.Uint32()
			}
			calls = append(calls, wl.Call{Op: "message", Ch: ch, Seq: s, Log: t, Pub: g.Time(), Data: g.Payload(chunkSize)})
		case r < 18:
			calls = append(calls, wl.Call{Op: "attachment", Log: g.Time(), Create: g.Time(), Name: g.Str(), Media: g.Str(), Data: g.Payload(chunkSize)})
		default:
			calls = append(calls, wl.Call{Op: "metadata", Name: g.Str(), MD: g.Map()})
		}
	}
	return append(calls, wl.Call{Op: "close"})
}

// RichCalls draws a call sequence that is guaranteed to contain at least two schemas, three channels, two
// attachments, two metadata records and messages on every channel, in a seeded interleaving (the flag matrix is run
// on it so that every per-kind code path sees more than one record of its kind).
func (g *G) RichCalls(n int, chunkSize int64) []wl.Call {
	for {
		calls := g.Calls(n, chunkSize)
		cnt := map[string]int{}
		chans := map[uint16]bool{}
		msgCh := map[uint16]bool{}
		for _, c := range calls {
			cnt[c.Op]++
			if c.Op == "channel" {
				chans[c.ID] = true
			}
			if c.Op == "message" {
				msgCh[c.Ch] = true
			}
		}
		if cnt["attachment"] >= 2 && cnt["metadata"] >= 2 && cnt["schema"] >= 2 && len(chans) >= 3 && len(msgCh) >= 2 && cnt["message"] >= 6 {
			return calls
		}
		n++
	}
}

// Workload draws a configuration and a call sequence.
func (g *G) Workload(id string, n int) wl.Workload {
	c := g.Cfg()
	return wl.Workload{ID: id, Cfg: c, Calls: g.Calls(n, c.ChunkSize)}
}

// AsmWorkload draws a "remuxing" workload: the caller assembles chunks itself and hands them over with
// WriteChunkWithIndexes, registers schemas and channels with AddSchema / AddChannel, and mixes in attachments and
// metadata.  The caller's side of the contract is kept by construction: every assembled chunk is self-contained
// (the schema and channel records of its messages precede them inside the chunk unless they were written earlier),
// its times, CRC and message indexes are exact, chunks are handed over only while the writer's own chunk buffer is
// empty (an unchunked writer, or a chunked one that is never given schema / channel / message calls), every channel
// with a message index is registered before Close (unless unregistered is set), and an index-less hand-over happens
// only when message indexing is skipped.
func (g *G) AsmWorkload(id string, n int, unregistered bool) wl.Workload {
	c := g.Cfg()
	ownData := !c.Chunked || g.R.Intn(3) == 0
	if ownData {
		c.Chunked = false // top-level schema / channel / message calls in between
	}
	calls := []wl.Call{{Op: "header", Profile: g.Str(), Library: g.Str()}}
	type def struct {
		c       wl.Call
		written bool
		added   bool
	}
	schemas := map[uint16]*def{}
	channels := map[uint16]*def{}
	var schemaList, channelList []uint16
	newSchema := func() uint16 {
		id := SchemaIDs[g.R.Intn(len(SchemaIDs))]
		if _, ok := schemas[id]; !ok {
			schemas[id] = &def{c: wl.Call{Op: "schema", ID: id, Name: g.Str(), Enc: g.Str(), Data: g.Payload(0)}}
			schemaList = append(schemaList, id)
		}
		return id
	}
	newChannel := func() uint16 {
		id := ChannelIDs[g.R.Intn(len(ChannelIDs))]
		if _, ok := channels[id]; !ok {
			var sid uint16
			if g.R.Intn(3) != 0 {
				sid = newSchema()
			}
			channels[id] = &def{c: wl.Call{Op: "channel", ID: id, Schema: sid, Topic: g.Str(), Menc: g.Str(), MD: g.Map()}}
			channelList = append(channelList, id)
		}
		return id
	}
	seq := uint32(0)
	msg := func(ch uint16, mode int, tbase *uint64) wl.Call {
		var t uint64
		switch mode {
		case 0:
			*tbase += uint64(g.R.Intn(3))
			t = *tbase
		case 1:
			t = g.Time()
		default:
			t = 0
		}
		seq++
		return wl.Call{Op: "message", Ch: ch, Seq: seq, Log: t, Pub: g.Time(), Data: g.Payload(c.ChunkSize)}
	}
	// Close re-writes every registered channel into the summary and rejects one whose schema it does not know: a
	// channel is added only after its schema
	addChannel := func(ch uint16) {
		d := channels[ch]
		if sid := d.c.Schema; sid != 0 && !schemas[sid].added {
			s := schemas[sid].c
			s.Op = "addschema"
			calls = append(calls, s)
			schemas[sid].added = true
		}
		x := d.c
		x.Op = "addchannel"
		calls = append(calls, x)
		d.added = true
	}
	tbase := uint64(g.R.Intn(5))
	for i := 0; i < n; i++ {
		r := g.R.Intn(20)
		switch {
		case r < 9: // an assembled chunk
			k := 1 + g.R.Intn(3)
			var use []uint16
			for j := 0; j < k; j++ {
				use = append(use, newChannel())
			}
			var inner []wl.Call
			for _, ch := range use {
				d := channels[ch]
				if sid := d.c.Schema; sid != 0 && (!schemas[sid].written || g.R.Intn(4) == 0) {
					inner = append(inner, schemas[sid].c)
					schemas[sid].written = true
				}
				if !d.written || g.R.Intn(3) == 0 {
					inner = append(inner, d.c)
					d.written = true
				}
			}
			mode := g.R.Intn(6)
			if mode > 2 {
				mode = 0
			}
			nm := g.R.Intn(6)
			if g.R.Intn(8) == 0 {
				nm = 0
			}
			for j := 0; j < nm; j++ {
				inner = append(inner, msg(use[g.R.Intn(len(use))], mode, &tbase))
			}
			idx := []string{"exact", "exact", "rev", "extra"}[g.R.Intn(4)]
			allZero := true
			for _, x := range inner {
				if x.Op == "message" && x.Log != 0 {
					allZero = false
				}
			}
			if c.SkipMsgIdx && (nm == 0 || !allZero) && g.R.Intn(2) == 0 {
				idx = "none"
			}
			comp := []string{"", "", "zstd", "lz4"}[g.R.Intn(4)]
			if len(inner) == 0 && g.R.Intn(2) == 0 {
				continue
			}
			calls = append(calls, wl.Call{Op: "chunk", Inner: inner, CComp: comp, Idx: idx})
		case r < 12 && ownData: // own top-level records: the writer must know the schema / channel (written top-level or added)
			ch := newChannel()
			d := channels[ch]
			if sid := d.c.Schema; sid != 0 && (!schemas[sid].added || !schemas[sid].written) {
				calls = append(calls, schemas[sid].c)
				schemas[sid].written, schemas[sid].added = true, true
			}
			if !d.added || !d.written || g.R.Intn(2) == 0 {
				calls = append(calls, d.c)
				d.written, d.added = true, true
			}
			for j := g.R.Intn(3); j > 0; j-- {
				calls = append(calls, msg(ch, 0, &tbase))
			}
		case r < 14:
			if len(schemaList) > 0 {
				sid := schemaList[g.R.Intn(len(schemaList))]
				s := schemas[sid].c
				s.Op = "addschema"
				calls = append(calls, s)
				schemas[sid].added = true
			}
		case r < 17:
			if len(channelList) > 0 {
				ch := channelList[g.R.Intn(len(channelList))]
				addChannel(ch)
			}
		case r < 19:
			calls = append(calls, wl.Call{Op: "attachment", Log: g.Time(), Create: g.Time(), Name: g.Str(), Media: g.Str(), Data: g.Payload(c.ChunkSize)})
		default:
			calls = append(calls, wl.Call{Op: "metadata", Name: g.Str(), MD: g.Map()})
		}
	}
	if !unregistered {
		// a remuxing tool registers what it has seen before it closes the file (in a seeded order)
		for _, i := range g.R.Perm(len(schemaList)) {
			if d := schemas[schemaList[i]]; !d.added && (d.written || g.R.Intn(2) == 0) {
				s := d.c
				s.Op = "addschema"
				calls = append(calls, s)
			}
		}
		for _, i := range g.R.Perm(len(channelList)) {
			if d := channels[channelList[i]]; !d.added {
				addChannel(channelList[i])
			}
		}
	}
	calls = append(calls, wl.Call{Op: "close"})
	return wl.Workload{ID: id, Cfg: c, Calls: calls}
}

// BulkCalls draws a workload of about totalKiB KiB of message data in messages of 40-600 KiB, alternating between
// highly compressible, text-like and incompressible payloads, on two channels, with an attachment in the middle.
func (g *G) BulkCalls(totalKiB int) []wl.Call {
	calls := []wl.Call{{Op: "header", Profile: []byte("bulk")},
		{Op: "schema", ID: 1, Name: []byte("s"), Enc: []byte("e"), Data: []byte("d")},
		{Op: "channel", ID: 1, Schema: 1, Topic: []byte("/big"), Menc: []byte("m")},
		{Op: "channel", ID: 2, Topic: []byte("/other"), Menc: []byte("m")}}
	left := totalKiB << 10
	i := 0
	for left > 0 {
		n := (40 + g.R.Intn(560)) << 10
		b := make([]byte, n)
		switch i % 3 {
		case 0: // long runs
			for j := range b {
				b[j] = byte(j >> 12)
			}
		case 1: // text-like: small alphabet with structure
			for j := range b {
				b[j] = "abcdefgh ijklmnop\n"[(j*7+g.R.Intn(3))%18]
			}
		default:
			g.R.Read(b)
		}
		i++
		calls = append(calls, wl.Call{Op: "message", Ch: uint16(1 + i%2), Seq: uint32(i), Log: uint64(1000 + i), Pub: uint64(i), Data: b})
		if i == 3 {
			calls = append(calls, wl.Call{Op: "attachment", Log: 5, Name: []byte("a"), Media: []byte("m"), Data: b[:n/2]})
		}
		left -= n
	}
	return append(calls, wl.Call{Op: "close"})
}

// OversizedCalls is a recording of small messages with one message far larger than the chunk size (and than a MiB) in the
// middle: the writer's chunk buffer grows for it once, and the chunks after it must come out like the chunks before it.
func (g *G) OversizedCalls(bigAt, bigKiB int) []wl.Call {
	calls := []wl.Call{{Op: "header", Profile: []byte("oversized")},
		{Op: "schema", ID: 1, Name: []byte("s"), Enc: []byte("e"), Data: []byte("d")},
		{Op: "channel", ID: 1, Schema: 1, Topic: []byte("/small"), Menc: []byte("m")},
		{Op: "channel", ID: 2, Topic: []byte("/big"), Menc: []byte("m")}}
	n := bigAt + 8 + g.R.Intn(20)
	for i := 0; i < n; i++ {
		if i == bigAt {
			b := make([]byte, bigKiB<<10+g.R.Intn(4096))
			g.R.Read(b[:len(b)/3])
			calls = append(calls, wl.Call{Op: "message", Ch: 2, Seq: uint32(i), Log: uint64(100 + i), Pub: uint64(i), Data: b})
			continue
		}
		d := make([]byte, 10+g.R.Intn(300))
		g.R.Read(d)
		calls = append(calls, wl.Call{Op: "message", Ch: 1, Seq: uint32(i), Log: uint64(100 + i), Pub: uint64(i), Data: d})
		if i == bigAt+3 {
			calls = append(calls, wl.Call{Op: "metadata", Name: []byte("after"), MD: []wl.KV{{K: []byte("k"), V: []byte("v")}}})
		}
	}
	return append(calls, wl.Call{Op: "close"})
}

// Reannounce returns the call sequence with channel (and schema) records written again, identically, right after some of
// the messages that use them: recorders re-announce channels periodically, and the specification allows a channel record to
// be repeated anywhere.  What the writer has already noted about the channel (its messages in the open chunk) must survive.
func (g *G) Reannounce(calls []wl.Call) []wl.Call {
	chans := map[uint16]wl.Call{}
	schemas := map[uint16]wl.Call{}
	var out []wl.Call
	for _, c := range calls {
		out = append(out, c)
		switch c.Op {
		case "schema":
			schemas[c.ID] = c
		case "channel":
			if !c.Refused {
				chans[c.ID] = c
			}
		case "message":
			if ch, ok := chans[c.Ch]; ok && !c.Refused && g.R.Intn(3) == 0 {
				if sc, ok := schemas[ch.Schema]; ok && g.R.Intn(2) == 0 {
					out = append(out, sc)
				}
				out = append(out, ch)
			}
		}
	}
	return out
}

// ReannounceWorkload is a chunked recording on three topics in which, chunk after chunk, a channel is announced again
// right after its last message of the chunk while other channels go on: at the flush the writer must still know that the
// chunk holds messages of the re-announced channel (message index, chunk index offsets).
func (g *G) ReannounceWorkload(id string) wl.Workload {
	c := wl.Cfg{Chunked: true, ChunkSize: int64(300 + g.R.Intn(500)), Compression: []string{"", "zstd", "lz4"}[g.R.Intn(3)], CRC: g.R.Intn(2) == 0}
	calls := []wl.Call{{Op: "header", Profile: []byte("p")}, {Op: "schema", ID: 1, Name: []byte("s"), Enc: []byte("e"), Data: []byte("d")}}
	chans := []wl.Call{
		{Op: "channel", ID: 1, Schema: 1, Topic: []byte("/a"), Menc: []byte("m")},
		{Op: "channel", ID: 2, Topic: []byte("/b"), Menc: []byte("m"), MD: []wl.KV{{K: []byte("k"), V: []byte("v")}}},
		{Op: "channel", ID: 3, Schema: 1, Topic: []byte("/c"), Menc: []byte("m")}}
	calls = append(calls, chans...)
	seq := uint32(0)
	t := uint64(10)
	msg := func(ch int) wl.Call {
		seq++
		t += uint64(g.R.Intn(3))
		d := make([]byte, 5+g.R.Intn(40))
		g.R.Read(d)
		return wl.Call{Op: "message", Ch: uint16(ch), Seq: seq, Log: t, Pub: t, Data: d}
	}
	for round := 0; round < 6+g.R.Intn(6); round++ {
		x := 1 + g.R.Intn(3) // the channel that is re-announced in this stretch
		for k := 0; k < 1+g.R.Intn(3); k++ {
			calls = append(calls, msg(x))
		}
		calls = append(calls, chans[x-1])
		for k := 0; k < 3+g.R.Intn(8); k++ { // the others go on until the chunk is flushed
			o := 1 + g.R.Intn(3)
			if o == x {
				o = 1 + o%3
			}
			calls = append(calls, msg(o))
		}
	}
	calls = append(calls, wl.Call{Op: "close"})
	return wl.Workload{ID: id, Cfg: c, Calls: calls}
}
